// c05: correspondence harness for property C05 (numbers: canonical representation, operators,
// integer conversions, string->number).  See /verif/FRAMEWORK.md section 2.
package main

import (
	"encoding/json"
	"fmt"
	"math"
	"math/big"
	"runtime/debug"
	"strconv"
	"strings"

	"github.com/dop251/goja"
	"verifharness/vh"
)

const failTerm = "CFail"

// Case is replayable: every operand is a float64 bit pattern (decimal string).
type Case struct {
	Kind string `json:"kind"`          // un | bin | val | eq | str
	Op   string `json:"op,omitempty"`  // operator (un/bin) or form (str)
	Var  int    `json:"var,omitempty"` // syntactic variant
	A    string `json:"a,omitempty"`
	B    string `json:"b,omitempty"`
	RA   string `json:"ra,omitempty"` // producer of x (val/eq)
	RB   string `json:"rb,omitempty"` // producer of y (eq)
	Rel  string `json:"rel,omitempty"`
	Str  []int  `json:"str,omitempty"`
	X    string `json:"x,omitempty"`     // pow: base (decimal int64)
	Y    int    `json:"y,omitempty"`     // pow: exponent
	Rdx  *int64 `json:"radix,omitempty"` // pint: radix argument (absent = undefined)
	Imp  int    `json:"imp,omitempty"`   // str: 1 = s is a Go string given to vm.Set, 2 = VerifNewImported (lazily scanned); 0 = built in JS
}

func bitsOf(s string) uint64 { u, _ := strconv.ParseUint(s, 10, 64); return u }
func fOf(s string) float64   { return math.Float64frombits(bitsOf(s)) }
func sOf(f float64) string   { return strconv.FormatUint(math.Float64bits(f), 10) }

// the harness's own canonical representation rule (independent of goja's floatToValue)
func isIntLike(f float64) bool {
	if math.IsNaN(f) || math.IsInf(f, 0) || (f == 0 && math.Signbit(f)) {
		return false
	}
	return f == math.Trunc(f) && math.Abs(f) <= 9007199254740992
}
func rawValue(f float64) goja.Value {
	if math.IsNaN(f) {
		// goja has one NaN (_NaN = math.NaN()); a valueFloat with another payload is not reachable from
		// scripts or ToValue (every producer goes through floatToValue), so the harness must not forge one
		return goja.VerifRawFloat(math.NaN())
	}
	if isIntLike(f) {
		return goja.VerifRawInt(int64(f))
	}
	return goja.VerifRawFloat(f)
}

// coqNum renders VerifRepr of a Number as a Gallina jsnum; ok=false if v is not a Number
func coqNum(v goja.Value) (string, string, bool) {
	if v == nil {
		return "", "nil", false
	}
	rep := goja.VerifRepr(v)
	switch {
	case strings.HasPrefix(rep, "int:"):
		n := rep[4:]
		if strings.HasPrefix(n, "-") {
			return "(I (" + n + "))", rep, true
		}
		return "(I " + n + ")", rep, true
	case strings.HasPrefix(rep, "float:"):
		u, _ := strconv.ParseUint(rep[6:], 16, 64)
		f := math.Float64frombits(u)
		if math.IsNaN(f) {
			if u != math.Float64bits(math.NaN()) {
				// goja has ONE NaN Value (_NaN); a valueFloat holding another NaN bit pattern hashes differently and
				// is a distinct Map/Set key: not a canonical Number
				return "", "float:nan-noncanonical:" + rep[6:], false
			}
			u = 0x7FF8000000000000 // the model's NaN token
			rep = "float:nan"
		}
		return fmt.Sprintf("(F %d)", u), rep, true
	}
	return "", rep, false
}
func coqOfFloat(f float64) string { // canonical operand as jsnum
	if isIntLike(f) {
		i := int64(f)
		if i < 0 {
			return fmt.Sprintf("(I (%d))", i)
		}
		return fmt.Sprintf("(I %d)", i)
	}
	u := math.Float64bits(f)
	if math.IsNaN(f) {
		u = 0x7FF8000000000000
	}
	return fmt.Sprintf("(F %d)", u)
}

var unScripts = map[string][]string{
	"UNeg":    {"-a", "(function(){var x=a; return -x})()", "(function(){var c=0; var o={valueOf:function(){c++; return a}}; var r=-o; return c===1 ? r : \"valueOf called \"+c+\" times\"})()"},
	"UPlus":   {"+a", "Number(a)"},
	"UInc":    {"(function(){var x=a; x++; return x})()", "(function(){var x=a; var y=++x; return y})()", "(function(){var o={v:a}; o.v++; return o.v})()", "(function(){var x=a; var y=x++; return x})()", "(function(){var o=[a]; ++o[0]; return o[0]})()"},
	"UDec":    {"(function(){var x=a; x--; return x})()", "(function(){var x=a; var y=--x; return y})()", "(function(){var o={v:a}; o.v--; return o.v})()", "(function(){var x=a; var y=x--; return x})()"},
	"UBnot":   {"~a"},
	"UAbs":    {"Math.abs(a)"},
	"UFloor":  {"Math.floor(a)"},
	"UCeil":   {"Math.ceil(a)"},
	"UTrunc":  {"Math.trunc(a)"},
	"URound":  {"Math.round(a)"},
	"USign":   {"Math.sign(a)"},
	"UFround": {"Math.fround(a)", "new Float32Array([a])[0]"},
	"USqrt":   {"Math.sqrt(a)"},
	"UClz32":  {"Math.clz32(a)"},
	"UInt8":   {"new Int8Array([a])[0]", "(function(){var t=new Int8Array(1); t[0]=a; return t[0]})()", "(function(){var d=new DataView(new ArrayBuffer(1)); d.setInt8(0,a); return d.getInt8(0)})()"},
	"UUint8":  {"new Uint8Array([a])[0]", "(function(){var t=new Uint8Array(1); t.fill(a); return t[0]})()"},
	"UClamp":  {"new Uint8ClampedArray([a])[0]", "(function(){var t=new Uint8ClampedArray(1); t[0]=a; return t[0]})()"},
	"UInt16":  {"new Int16Array([a])[0]", "(function(){var d=new DataView(new ArrayBuffer(2)); d.setInt16(0,a); return d.getInt16(0)})()"},
	"UUint16": {"new Uint16Array([a])[0]"},
	"UInt32":  {"new Int32Array([a])[0]", "(function(){var d=new DataView(new ArrayBuffer(4)); d.setInt32(0,a,true); return d.getInt32(0,true)})()"},
	"UUint32": {"new Uint32Array([a])[0]"},
	"UOr0":    {"a|0", "a^0", "a<<0", "a>>0", "~~a", "(function(){var x=a; x|=0; return x})()"},
	"UShr0":   {"a>>>0", "(function(){var x=a; x>>>=0; return x})()"},
	"ULength": {"Array.prototype.push.call({length:a})"},
	"UAt8":    {"(function(){var r=[0,1,2,3,4,5,6,7].at(a); return r===undefined?-1:r})()"},
	"USlice8": {"[0,1,2,3,4,5,6,7].slice(0,a).length", "(function(){var t=new Uint8Array(8); return t.subarray(0,a).length})()"},
	"UF64":    {"new Float64Array([a])[0]", "(function(){var d=new DataView(new ArrayBuffer(8)); d.setFloat64(0,a); return d.getFloat64(0)})()"},
}
var unOps = []string{"UNeg", "UPlus", "UInc", "UDec", "UBnot", "UAbs", "UFloor", "UCeil", "UTrunc", "URound", "USign",
	"UFround", "USqrt", "UClz32", "UInt8", "UUint8", "UClamp", "UInt16", "UUint16", "UInt32", "UUint32", "UOr0", "UShr0",
	"ULength", "UAt8", "UF64", "USlice8"}

var binSyms = map[string]string{"BAdd": "+", "BSub": "-", "BMul": "*", "BDiv": "/", "BMod": "%", "BAnd": "&", "BOr": "|",
	"BXor": "^", "BShl": "<<", "BSar": ">>", "BShr": ">>>"}
var binOps = []string{"BAdd", "BSub", "BMul", "BDiv", "BMod", "BAnd", "BOr", "BXor", "BShl", "BSar", "BShr", "BImul", "BMax", "BMin"}

func binScript(op string, v int) string {
	switch op {
	case "BImul":
		return "Math.imul(a,b)"
	case "BMax":
		return "Math.max(a,b)"
	case "BMin":
		return "Math.min(a,b)"
	}
	s := binSyms[op]
	switch v % 3 {
	case 1:
		return "(function(){var x=a; x" + s + "=b; return x})()"
	case 2:
		return "(function(){var o={v:a}; o.v" + s + "=b; return o.v})()"
	}
	return "a" + s + "b"
}

func jsLiteral(f float64) string {
	switch {
	case math.IsNaN(f):
		return "NaN"
	case math.IsInf(f, 1):
		return "Infinity"
	case math.IsInf(f, -1):
		return "-Infinity"
	case f == 0 && math.Signbit(f):
		return "-0"
	}
	return strconv.FormatFloat(f, 'g', -1, 64)
}

var valRoutes = []string{"f32arr", "f32bits", "f64bits", "bigint", "parseint_long", "parsefloat_long", "number_long", "pow1", "literal", "numstr", "json", "dataview", "goval_f", "goval_i", "mul1", "sub0", "div1", "negneg",
	"parsefloat", "unaryplus", "f64arr", "goval_f32", "goval_i32", "export"}
var eqRoutes = []string{"raw", "literal", "numstr", "json", "dataview", "goval_f", "mul1", "sub0", "negneg", "inc", "dec", "neg", "add1", "f64arr", "half2",
	"parseint_long", "parsefloat_long", "number_long", "parseint_long", "parsefloat_long", "number_long", "pow1",
	"f32arr", "f32bits", "f64bits", "f32bits", "f64bits", "bigint"}

// produce builds a Number from the double f by the named route; nil if the route does not apply
func produce(vm *goja.Runtime, route string, f float64) (res goja.Value) {
	defer func() {
		if x := recover(); x != nil {
			res = nil
		}
	}()
	run := func(src string) goja.Value {
		v, err := vm.RunString(src)
		if err != nil {
			return nil
		}
		return v
	}
	lit := jsLiteral(f)
	finite := !math.IsNaN(f) && !math.IsInf(f, 0)
	switch route {
	case "raw":
		return rawValue(f)
	case "literal":
		return run("(" + lit + ")")
	case "numstr":
		return run("Number(\"" + lit + "\")")
	case "unaryplus":
		return run("+\"" + lit + "\"")
	case "parsefloat":
		return run("parseFloat(\" " + lit + "\")")
	case "json":
		if !finite {
			return nil
		}
		return run("JSON.parse(\"[" + lit + "]\")[0]")
	case "dataview":
		u := math.Float64bits(f)
		return run(fmt.Sprintf("(function(){var d=new DataView(new ArrayBuffer(8)); d.setUint32(0,%d); d.setUint32(4,%d); return d.getFloat64(0)})()", u>>32, u&0xffffffff))
	case "f64arr":
		vm.Set("p", rawValue(f))
		return run("(function(){var t=new Float64Array(2); t[1]=p; return t[1]})()")
	case "goval_f":
		return vm.ToValue(f)
	case "goval_f32":
		if float64(float32(f)) != f && !math.IsNaN(f) {
			return nil
		}
		return vm.ToValue(float32(f))
	case "goval_i":
		if !finite || f != math.Trunc(f) || math.Abs(f) >= 9223372036854775808 || (f == 0 && math.Signbit(f)) {
			return nil
		}
		return vm.ToValue(int64(f))
	case "goval_i32":
		if !finite || f != math.Trunc(f) || math.Abs(f) > 2147483647 || (f == 0 && math.Signbit(f)) {
			return nil
		}
		return vm.ToValue(int32(f))
	case "export":
		v := rawValue(f)
		return vm.ToValue(v.Export())
	case "mul1":
		vm.Set("p", rawValue(f))
		return run("p*1")
	case "sub0":
		vm.Set("p", rawValue(f))
		return run("p-0")
	case "div1":
		vm.Set("p", rawValue(f))
		return run("p/1")
	case "negneg":
		vm.Set("p", rawValue(f))
		return run("-(-p)")
	case "neg": // value -(-f) = f, first negation done outside
		vm.Set("p", rawValue(-f))
		return run("-p")
	case "inc":
		if f-1+1 != f && !math.IsNaN(f) {
			return nil
		}
		vm.Set("p", rawValue(f-1))
		return run("(function(){var x=p; x++; return x})()")
	case "dec":
		if f+1-1 != f && !math.IsNaN(f) {
			return nil
		}
		vm.Set("p", rawValue(f+1))
		return run("(function(){var x=p; x--; return x})()")
	case "add1":
		if f-1+1 != f && !math.IsNaN(f) {
			return nil
		}
		vm.Set("p", rawValue(f-1))
		return run("p+1")
	case "parseint_long", "parsefloat_long", "number_long":
		// a LONG source text (zero padding, and for the parse* functions a non-numeric tail) with the value f
		u := math.Float64bits(f)
		mix := (u ^ (u >> 29) ^ (u >> 47)) * 0x9E3779B97F4A7C15
		padTo := []int{16, 20, 62, 63, 64, 65, 66, 100, 130}[int(mix>>8)%9]
		neg := f < 0
		a := math.Abs(f)
		if !finite || (f == 0 && math.Signbit(f)) {
			return nil
		}
		var digits, src string
		switch route {
		case "parseint_long":
			if a != math.Trunc(a) || a >= 9007199254740992 {
				return nil
			}
			radix := 2 + int(mix>>20)%35
			digits = strconv.FormatInt(int64(a), radix)
			if (mix>>40)&1 == 1 {
				digits = strings.ToUpper(digits)
			}
			for len(digits) < padTo {
				digits = "0" + digits
			}
			tail := []string{"", "", " px", "~", ".5", " is the answer to life, the universe and everything, said the computer"}[int(mix>>44)%6]
			if neg {
				digits = "-" + digits
			}
			src = fmt.Sprintf("parseInt(\"%s%s\", %d)", digits, tail, radix)
		default:
			lit := strconv.FormatFloat(a, 'f', -1, 64)
			if len(lit) > 40 {
				return nil
			}
			digits = lit
			for len(digits) < padTo {
				digits = "0" + digits
			}
			if neg {
				digits = "-" + digits
			}
			if route == "parsefloat_long" {
				tail := []string{"", "abc", " 12", "e", "..", "px and a long tail that is not part of the number at all"}[int(mix>>44)%6]
				src = "parseFloat(\"  " + digits + tail + "\")"
			} else {
				src = "Number(\"" + digits + "  \")"
			}
		}
		return run(src)
	case "f32arr", "f32bits", "f64bits":
		// an element READ from a float typed array; the bits get there through a store (f32arr) or through an
		// integer view of the same buffer (f32bits/f64bits: any NaN bit pattern), and the element is read by index,
		// at(), iteration, Array.from, find, slice
		u := math.Float64bits(f)
		mix := (u ^ (u >> 31) ^ (u >> 11)) * 0x9E3779B97F4A7C15
		reads := []string{"t[0]", "t.at(0)", "[...t][0]", "Array.from(t)[0]", "t.values().next().value", "t.slice(0)[0]",
			"t.find(function(){return true})", "(function(){var r; t.forEach(function(x){r=x}); return r})()", "t.subarray(0)[0]", "Array.prototype.slice.call(t)[0]"}
		rd := reads[int(mix>>33)%len(reads)]
		if route == "f64bits" {
			hi, lo := uint32(u>>32), uint32(u)
			switch int(mix>>50) % 3 {
			case 0:
				return run(fmt.Sprintf("(function(){var t=new Float64Array(1); var w=new Uint32Array(t.buffer); w[0]=%d; w[1]=%d; return %s})()", lo, hi, rd))
			case 1:
				return run(fmt.Sprintf("(function(){var t=new Float64Array(1); new BigUint64Array(t.buffer)[0]=%dn; return %s})()", u, rd))
			default:
				return run(fmt.Sprintf("(function(){var t=new Float64Array(1); new Uint8Array(t.buffer).set([%d,%d,%d,%d,%d,%d,%d,%d]); return %s})()",
					byte(u), byte(u>>8), byte(u>>16), byte(u>>24), byte(u>>32), byte(u>>40), byte(u>>48), byte(u>>56), rd))
			}
		}
		if !math.IsNaN(f) && float64(float32(f)) != f {
			return nil
		}
		if route == "f32arr" {
			vm.Set("p", rawValue(f))
			return run("(function(){var t=new Float32Array(1); t[0]=p; return " + rd + "})()")
		}
		w := math.Float32bits(float32(f))
		if math.IsNaN(f) { // a float32 NaN pattern derived from f's payload and sign
			w = 0x7F800000 | uint32(u>>29)&0x7FFFFF | uint32(u>>63)<<31
			if w&0x7FFFFF == 0 {
				w |= 0x400000
			}
		}
		return run(fmt.Sprintf("(function(){var t=new Float32Array(1); new Uint32Array(t.buffer)[0]=%d; return %s})()", w, rd))
	case "bigint":
		if !finite || f != math.Trunc(f) || (f == 0 && math.Signbit(f)) {
			return nil
		}
		bi, _ := new(big.Float).SetFloat64(f).Int(nil)
		return run("Number(BigInt(\"" + bi.String() + "\"))")
	case "pow1":
		vm.Set("p", rawValue(f))
		return run("p**1")
	case "half2":
		if f/2*2 != f && !math.IsNaN(f) {
			return nil
		}
		vm.Set("p", rawValue(f/2))
		return run("p*2")
	}
	return nil
}

func skip(c Case, why string) vh.Record {
	// a case whose route does not apply is recorded as a trivially true value case
	return vh.Record{Case: vh.MustJSON(c), Coq: "(CVal 0 (I 0))", Obs: "skipped: " + why, Tags: []string{"skip"}}
}

func classTag(f float64) string {
	a := math.Abs(f)
	switch {
	case math.IsNaN(f):
		return "nan"
	case math.IsInf(f, 0):
		return "inf"
	case f == 0 && math.Signbit(f):
		return "negzero"
	case f == 0:
		return "zero"
	case a >= 9223372036854775808:
		return "ge2^63"
	case a > 9007199254740992:
		return "gt2^53"
	case a >= 9007199254740990:
		return "near2^53"
	case a < 2.2250738585072014e-308:
		return "subnormal"
	case f != math.Trunc(f):
		return "fraction"
	case a >= 2147483647:
		return "int_ge2^31"
	case a <= 300:
		return "smallint"
	}
	return "int"
}

func obsJSON(m map[string]interface{}) string {
	b, _ := json.Marshal(m)
	return string(b)
}

func runCase(c Case) vh.Record {
	vm := goja.New()
	raw := vh.MustJSON(c)
	tags := []string{"kind:" + c.Kind}
	switch c.Kind {
	case "un", "bin":
		a := fOf(c.A)
		vm.Set("a", rawValue(a))
		tags = append(tags, "op:"+c.Op, "a:"+classTag(a))
		var src, term string
		nontrivial := classTag(a) != "smallint"
		if c.Kind == "un" {
			vs := unScripts[c.Op]
			src = vs[c.Var%len(vs)]
		} else {
			b := fOf(c.B)
			vm.Set("b", rawValue(b))
			src = binScript(c.Op, c.Var)
			tags = append(tags, "b:"+classTag(b))
			nontrivial = nontrivial || classTag(b) != "smallint"
		}
		v, err := vm.RunString(src)
		if err != nil {
			return vh.Record{Case: raw, Coq: failTerm, Obs: obsJSON(map[string]interface{}{"src": src, "error": errClass(err)}), Tags: append(tags, "error")}
		}
		rt, rep, ok := coqNum(v)
		if !ok {
			return vh.Record{Case: raw, Coq: failTerm, Obs: obsJSON(map[string]interface{}{"src": src, "r": rep}), Tags: append(tags, "notnumber")}
		}
		if c.Kind == "un" {
			term = fmt.Sprintf("CUn %s %s %s", c.Op, coqOfFloat(a), rt)
		} else {
			term = fmt.Sprintf("CBin %s %s %s %s", c.Op, coqOfFloat(a), coqOfFloat(fOf(c.B)), rt)
		}
		tags = append(tags, "res:"+rep[:strings.IndexByte(rep, ':')])
		return vh.Record{Case: raw, Coq: term, Obs: obsJSON(map[string]interface{}{"src": src, "r": rep}), Tags: tags, Nontrivial: nontrivial}
	case "val":
		f := fOf(c.A)
		tags = append(tags, "route:"+c.RA, "a:"+classTag(f))
		v := produce(vm, c.RA, f)
		if v == nil {
			return skip(c, "route n/a")
		}
		rt, rep, ok := coqNum(v)
		if !ok {
			return vh.Record{Case: raw, Coq: failTerm, Obs: obsJSON(map[string]interface{}{"r": rep}), Tags: append(tags, "notnumber")}
		}
		u := math.Float64bits(f)
		if math.IsNaN(f) {
			u = 0x7FF8000000000000
		}
		return vh.Record{Case: raw, Coq: fmt.Sprintf("CVal %d %s", u, rt), Obs: obsJSON(map[string]interface{}{"r": rep}), Tags: tags, Nontrivial: true}
	case "eq":
		f := fOf(c.A)
		tags = append(tags, "routeA:"+c.RA, "routeB:"+c.RB, "rel:"+c.Rel, "a:"+classTag(f))
		x := produce(vm, c.RA, f)
		if x == nil {
			return skip(c, "route A n/a")
		}
		g := x.ToFloat()
		switch c.Rel {
		case "negzero":
			g = -g
		case "other":
			g = fOf(c.B)
		}
		y := produce(vm, c.RB, g)
		if y == nil {
			return skip(c, "route B n/a")
		}
		xt, xrep, ok1 := coqNum(x)
		yt, yrep, ok2 := coqNum(y)
		vm.Set("x", x)
		vm.Set("y", y)
		if !ok1 || !ok2 {
			// not a canonical Number (e.g. a NaN with a foreign bit pattern): record what scripts see of it
			seen := ""
			if w, e := vm.RunString("'is:'+Object.is(x,y)+' set:'+new Set([x,y]).size+' mapget:'+new Map([[x,1]]).get(y)"); e == nil {
				seen = w.String()
			}
			return vh.Record{Case: raw, Coq: failTerm, Obs: obsJSON(map[string]interface{}{"x": xrep, "y": yrep, "seen": seen}), Tags: append(tags, "notnumber")}
		}
		v, err := vm.RunString("[Object.is(x,y), Object.is(y,x), x===y, y===x, new Map([[x,1]]).get(y)===1, [x].includes(y), new Set([x]).has(y), ({[x]:1})[y]===1, new Set([x,y]).size===1, (function(){var m=new Map(); m.set(x,1); m.set(y,2); return m.has(y)&&m.has(x)&&m.size===1&&m.delete(x)})()]")
		if err != nil {
			return vh.Record{Case: raw, Coq: failTerm, Obs: obsJSON(map[string]interface{}{"error": errClass(err)}), Tags: append(tags, "error")}
		}
		var bs []bool
		vm.ExportTo(v, &bs)
		items := make([]string, len(bs))
		for i, b := range bs {
			items[i] = vh.CoqBool(b)
		}
		return vh.Record{Case: raw, Coq: fmt.Sprintf("CEq %s %s %s", xt, yt, vh.CoqList(items)),
			Obs: obsJSON(map[string]interface{}{"x": xrep, "y": yrep, "obs": bs}), Tags: tags, Nontrivial: true}
	case "str":
		tags = append(tags, "form:"+c.Op)
		units := make([]string, len(c.Str))
		zs := make([]string, len(c.Str))
		for i, u := range c.Str {
			units[i] = strconv.Itoa(u)
			zs[i] = strconv.Itoa(u) + "%Z"
		}
		pre := "var s=String.fromCharCode(" + strings.Join(units, ",") + "); var a=s; "
		if c.Imp != 0 {
			// the same text as a Go string handed over through the host API: > 16 bytes and non-ASCII makes it a
			// lazily scanned importedString; nothing may touch it before the conversion under test
			rs := make([]rune, len(c.Str))
			for i, u := range c.Str {
				rs[i] = rune(u)
			}
			gs := string(rs)
			var sv goja.Value
			if c.Imp == 2 {
				sv = goja.VerifNewImported(gs)
			} else {
				sv = vm.ToValue(gs)
			}
			vm.Set("s", sv)
			vm.Set("a", sv)
			pre = ""
			tags = append(tags, fmt.Sprintf("imp:%d", c.Imp), "srep:"+goja.VerifRepr(sv), fmt.Sprintf("bytes>16:%v", len(gs) > 16))
		}
		var src string
		strOp := ""
		if strings.HasPrefix(c.Op, "op:") {
			strOp = c.Op[3:]
		}
		switch c.Op {
		case "number":
			src = "Number(s)"
		case "plus":
			src = "+s"
		case "mul1":
			src = "s*1"
		case "sub0":
			src = "s-0"
		case "negneg":
			src = "-(-s)"
		case "abs":
			src = "(function(){var r=Math.abs(s); return r})()"
		default:
			src = "Number(s)"
			if vs, ok := unScripts[strOp]; ok {
				src = vs[c.Var%len(vs)]
			}
		}
		v, err := vm.RunString(pre + src)
		if err != nil {
			return vh.Record{Case: raw, Coq: failTerm, Obs: obsJSON(map[string]interface{}{"error": errClass(err)}), Tags: append(tags, "error")}
		}
		rt, rep, ok := coqNum(v)
		if !ok {
			return vh.Record{Case: raw, Coq: failTerm, Obs: obsJSON(map[string]interface{}{"r": rep}), Tags: append(tags, "notnumber")}
		}
		ctor := "CStr"
		if c.Op == "abs" {
			ctor = "CStrAbs"
		}
		if _, ok := unScripts[strOp]; ok {
			ctor = "CStrOp " + strOp
		}
		return vh.Record{Case: raw, Coq: fmt.Sprintf("%s %s %s", ctor, vh.CoqList(zs), rt), Obs: obsJSON(map[string]interface{}{"src": src, "r": rep}), Tags: tags, Nontrivial: true}
	case "leaf":
		// the number constructors called directly through the hooks (used by the leaf-translation stage of
		// checks/C05.py, and sampled by the generator): op = intToValue (x: int64, decimal) | floatToValue (a: bits)
		var v goja.Value
		var bits uint64
		// intToValue and floatToValue call each other: a broken range test makes the recursion endless, and Go's
		// stack overflow is fatal (not recoverable); a small limit makes the process die at once instead of after 1 GB
		debug.SetMaxStack(32 << 20)
		switch c.Op {
		case "intToValue":
			x, _ := strconv.ParseInt(c.X, 10, 64)
			v = goja.VerifIntToValue(x)
			bits = math.Float64bits(float64(x)) // the Number an int64 denotes: float64(x), correctly rounded
			tags = append(tags, "op:intToValue", "a:"+classTag(float64(x)))
		case "floatToValue":
			f := fOf(c.A)
			v = goja.VerifFloatToValue(f)
			bits = math.Float64bits(f)
			tags = append(tags, "op:floatToValue", "a:"+classTag(f))
		default:
			return skip(c, "unknown leaf op")
		}
		rt, rep, ok := coqNum(v)
		if !ok {
			return vh.Record{Case: raw, Coq: failTerm, Obs: obsJSON(map[string]interface{}{"r": rep}), Tags: append(tags, "notnumber")}
		}
		if math.IsNaN(math.Float64frombits(bits)) {
			bits = 0x7FF8000000000000
		}
		return vh.Record{Case: raw, Coq: fmt.Sprintf("CVal %d %s", bits, rt), Obs: obsJSON(map[string]interface{}{"r": rep}), Tags: tags, Nontrivial: true}
	case "pow":
		x, _ := strconv.ParseInt(c.X, 10, 64)
		vm.Set("a", rawValue(float64(x)))
		vm.Set("b", rawValue(float64(c.Y)))
		src := []string{"a**b", "Math.pow(a,b)", "(function(){var x=a; x**=b; return x})()"}[c.Var%3]
		tags = append(tags, fmt.Sprintf("exp:%d", c.Y))
		v, err := vm.RunString(src)
		if err != nil {
			return vh.Record{Case: raw, Coq: failTerm, Obs: obsJSON(map[string]interface{}{"src": src, "error": errClass(err)}), Tags: append(tags, "error")}
		}
		rt, rep, ok := coqNum(v)
		if !ok {
			return vh.Record{Case: raw, Coq: failTerm, Obs: obsJSON(map[string]interface{}{"src": src, "r": rep}), Tags: append(tags, "notnumber")}
		}
		tags = append(tags, "res:"+rep[:strings.IndexByte(rep, ':')])
		return vh.Record{Case: raw, Coq: fmt.Sprintf("CPow %s %s %s", vh.CoqZ(x), vh.CoqZ(int64(c.Y)), rt),
			Obs: obsJSON(map[string]interface{}{"src": src, "r": rep}), Tags: tags, Nontrivial: true}
	case "pint", "pfloat":
		units := make([]string, len(c.Str))
		zs := make([]string, len(c.Str))
		for i, u := range c.Str {
			units[i] = strconv.Itoa(u)
			zs[i] = strconv.Itoa(u) + "%Z"
		}
		pre := "var s=String.fromCharCode(" + strings.Join(units, ",") + "); "
		if len(c.Str) == 0 {
			pre = "var s=\"\"; "
		}
		var src, term string
		tags = append(tags, fmt.Sprintf("len:%d", lenClass(len(c.Str))))
		if c.Kind == "pint" {
			src = "parseInt(s)"
			rdx := int64(0)
			if c.Rdx != nil {
				rdx = *c.Rdx
				src = fmt.Sprintf("parseInt(s, %d)", rdx)
			}
			tags = append(tags, fmt.Sprintf("radix:%d", rdx))
			term = fmt.Sprintf("CPInt %s %s ", vh.CoqList(zs), vh.CoqZ(rdx))
		} else {
			src = "parseFloat(s)"
			term = fmt.Sprintf("CPFloat %s ", vh.CoqList(zs))
		}
		v, err := vm.RunString(pre + src)
		if err != nil {
			return vh.Record{Case: raw, Coq: failTerm, Obs: obsJSON(map[string]interface{}{"error": errClass(err)}), Tags: append(tags, "error")}
		}
		rt, rep, ok := coqNum(v)
		if !ok {
			return vh.Record{Case: raw, Coq: failTerm, Obs: obsJSON(map[string]interface{}{"r": rep}), Tags: append(tags, "notnumber")}
		}
		tags = append(tags, "res:"+rep[:strings.IndexByte(rep, ':')])
		return vh.Record{Case: raw, Coq: term + rt, Obs: obsJSON(map[string]interface{}{"src": src, "r": rep}), Tags: tags, Nontrivial: true}
	}
	return vh.Record{Case: raw, Coq: failTerm, Obs: "unknown kind", Tags: tags}
}

func lenClass(n int) int {
	for _, b := range []int{15, 19, 62, 63, 64, 65, 99, 1000} {
		if n <= b {
			return b
		}
	}
	return 1000
}

// iroot returns the largest b >= 0 with b^e <= n
func iroot(n *big.Int, e int) int64 {
	lo, hi := int64(0), int64(1)<<32
	if e == 1 {
		return n.Int64()
	}
	for lo < hi {
		mid := lo + (hi-lo+1)/2
		p := new(big.Int).Exp(big.NewInt(mid), big.NewInt(int64(e)), nil)
		if p.Cmp(n) <= 0 {
			lo = mid
		} else {
			hi = mid - 1
		}
	}
	return lo
}

var (
	bigMaxInt64 = new(big.Int).SetUint64(1<<63 - 1)
	bigTwo53    = new(big.Int).SetUint64(1 << 53)
)

// genPow: bases at the int64 overflow boundary and at the 2^53 representation boundary of every exponent
func genPow(r *vh.Rng) Case {
	if r.Chance(30) { // the power lands exactly on / next to 2^52..2^54 or 2^62..2^64: base 2^k (+-1), k*e in those sets
		e := 1 + r.Intn(64)
		t := []int{52, 53, 54, 62, 63, 64, 53, 63}[r.Intn(8)]
		k := t / e
		if k < 1 {
			k = 1
		}
		if k > 53 {
			k = 53
		}
		x := int64(1)<<uint(k) + int64(r.Pick(70, 15, 15)+1)%3 - 1 // 2^k, 2^k+1, 2^k-1
		if x > 9007199254740992 {
			x = 9007199254740992
		}
		if r.Bool() {
			x = -x
		}
		return Case{Kind: "pow", Var: r.Intn(3), X: strconv.FormatInt(x, 10), Y: e}
	}
	e := 2 + r.Intn(20)
	switch r.Pick(70, 8, 12, 10) {
	case 1:
		e = r.Intn(3) // 0, 1, 2
	case 2:
		e = 22 + r.Intn(49) // 22..70
	case 3:
		e = []int{2, 3, 4, 5, 6, 8, 10, 16, 32, 62, 63, 64, 65}[r.Intn(13)]
	}
	var x int64
	switch r.Pick(40, 25, 20, 10, 5) {
	case 0:
		ee := e
		if ee < 1 {
			ee = 1
		}
		x = iroot(bigMaxInt64, ee) + int64(r.Intn(5)-2)
	case 1:
		ee := e
		if ee < 1 {
			ee = 1
		}
		x = iroot(bigTwo53, ee) + int64(r.Intn(3)-1)
	case 2:
		x = int64(r.Intn(41) - 20)
	case 3:
		x = int64(r.Intn(2001) - 1000)
	default:
		x = int64(int32(r.U64()))
	}
	if x > 9007199254740992 {
		x = 9007199254740992 - int64(r.Intn(3))
	}
	if r.Bool() {
		x = -x
	}
	return Case{Kind: "pow", Var: r.Intn(3), X: strconv.FormatInt(x, 10), Y: e}
}

const radixDigits = "0123456789abcdefghijklmnopqrstuvwxyz"

func padLen(r *vh.Rng) int {
	return []int{1, 5, 15, 16, 17, 19, 20, 21, 62, 63, 64, 65, 66, 99, 100, 101, 200}[r.Intn(17)]
}

var garbageTails = []string{"", "", "", "px", " is the answer to life, the universe and everything (a long tail, well over sixty-four characters)",
	"~", ".5", "_1", " 7", "e5", "n", "\u00e9", "G", "-3"}

func genPInt(r *vh.Rng) Case {
	var radix int64
	var rp *int64
	switch r.Pick(20, 60, 10, 10) {
	case 0: // undefined
	case 1:
		radix = int64(2 + r.Intn(35))
		rp = &radix
	case 2:
		radix = []int64{0, 10, 16, 16, 2, 8, 36}[r.Intn(7)]
		rp = &radix
	default:
		radix = []int64{1, 37, -1, 4294967298, -4294967280, 100}[r.Intn(6)]
		rp = &radix
	}
	base := int(radix)
	if base < 2 || base > 36 {
		base = 10
	}
	hexPrefix := false
	if (rp == nil || radix == 0 || radix == 16) && r.Chance(35) {
		hexPrefix = true
		base = 16
	}
	// the value
	var v uint64
	switch r.Pick(35, 20, 15, 15, 15) {
	case 0:
		v = uint64(r.Intn(1000))
	case 1:
		v = r.U64() >> uint(12+r.Intn(50))
	case 2:
		v = 0
	case 3:
		v = (uint64(1) << 53) - 2 + uint64(r.Intn(5))
	default:
		v = (uint64(1) << 63) - 3 + uint64(r.Intn(6))
	}
	digits := strconv.FormatUint(v, base)
	if r.Chance(30) {
		digits = strings.ToUpper(digits)
	}
	target := padLen(r)
	if r.Chance(15) { // long significant digit strings (value >= 2^63: approximate path)
		for len(digits) < target {
			digits += string(radixDigits[r.Intn(base)])
		}
	} else {
		for len(digits) < target {
			digits = "0" + digits
		}
	}
	sb := ""
	for i := r.Pick(60, 25, 15); i > 0; i-- {
		sb += string(rune(wsUnits[r.Intn(len(wsUnits))]))
	}
	sb += []string{"", "", "", "-", "+"}[r.Intn(5)]
	if hexPrefix {
		sb += []string{"0x", "0X"}[r.Intn(2)]
	}
	if r.Chance(4) {
		digits = "" // nothing to parse
	}
	sb += digits
	tail := garbageTails[r.Intn(len(garbageTails))]
	if tail != "" && strings.IndexByte(radixDigits[:base], tail[0]|0x20) >= 0 && tail[0] < 0x80 {
		tail = "~" + tail // the tail must not start with a digit of this radix
	}
	sb += tail
	return Case{Kind: "pint", Str: unitsOf(sb), Rdx: rp}
}

func genPFloat(r *vh.Rng) Case {
	core := ""
	switch r.Pick(50, 15, 15, 20) {
	case 0: // zero-padded short decimal
		ip := strconv.Itoa(r.Intn(100000))
		if r.Chance(25) {
			ip = "0"
		}
		for n := padLen(r); len(ip) < n; {
			ip = "0" + ip
		}
		core = ip
		if r.Chance(50) {
			core += "." + strconv.Itoa(r.Intn(1000))
			if r.Chance(40) { // trailing zeros
				for n := r.Intn(80); n > 0; n-- {
					core += "0"
				}
			}
		}
		if r.Chance(25) {
			core += []string{"e", "E"}[r.Intn(2)] + []string{"", "+", "-"}[r.Intn(3)] + strconv.Itoa(r.Intn(12))
		}
	case 1:
		core = []string{"Infinity", "Infinityx", "Infinit", "-Infinity and beyond", "+Infinity", "inf", "NaN", ".", "-.", "e5", ".e5", "", "-", "+"}[r.Intn(14)]
	case 2:
		core = []string{".5", "5.", "-.5e1", "1e", "1e+", "1e-", "1.5.5", "1..5", "0x10", "1_000", "-0", "-0.000", "+0", "00.5", "1e3e3", "12e-1"}[r.Intn(16)]
	default: // long integers (exact when they fit 2^53 after stripping)
		n := 1 + r.Intn(22)
		for i := 0; i < n; i++ {
			core += string(rune('0' + r.Intn(10)))
		}
		for k := r.Intn(60); k > 0 && r.Chance(50); k-- {
			core = "0" + core
		}
	}
	sb := ""
	for i := r.Pick(60, 25, 15); i > 0; i-- {
		sb += string(rune(wsUnits[r.Intn(len(wsUnits))]))
	}
	if r.Chance(25) && core != "" && core[0] != '-' && core[0] != '+' {
		sb += []string{"-", "+"}[r.Intn(2)]
	}
	sb += core
	tail := garbageTails[r.Intn(len(garbageTails))]
	if tail != "" && (tail[0] >= '0' && tail[0] <= '9' || tail[0] == 'e' || tail[0] == '.') {
		tail = "~" + tail
	}
	sb += tail
	return Case{Kind: "pfloat", Str: unitsOf(sb)}
}

func errClass(err error) string {
	if ex, ok := err.(*goja.Exception); ok {
		if o, ok := ex.Value().(*goja.Object); ok {
			if n := o.Get("name"); n != nil {
				switch n.String() {
				case "TypeError", "RangeError", "SyntaxError", "ReferenceError":
					return n.String()
				}
			}
		}
		return "Thrown"
	}
	if _, ok := err.(*goja.InterruptedError); ok {
		return "Interrupted"
	}
	return "GoError"
}

// ---------------------------------------------------------------------------------------------
// generators

var p2 = math.Ldexp

var specials = []float64{
	0, math.Copysign(0, -1), 1, -1, 2, -2, 0.5, -0.5, 1.5, -1.5, 2.5, -2.5, 3, 0.49999999999999994, -0.49999999999999994,
	127, 128, 129, 127.5, -128, -129, 255, 256, 254.5, 255.5, 253.5, 0.5000000000000001, 2.5000000000000004, 254.50000000000003,
	32767, 32768, 65535, 65536, -32768, -32769,
	2147483647, 2147483648, 2147483649, -2147483648, -2147483649, 4294967295, 4294967296, 4294967297, -4294967295, -4294967296,
	2147483647.5, 4294967295.5, -2147483648.5,
	p2(1, 52), p2(1, 52) - 0.5, p2(1, 52) + 1, p2(1, 51) + 0.5, -(p2(1, 52) - 0.5),
	p2(1, 53) - 2, p2(1, 53) - 1, p2(1, 53), p2(1, 53) + 2, p2(1, 53) + 4, -(p2(1, 53) - 1), -p2(1, 53), -(p2(1, 53) + 2),
	p2(1, 62), p2(1, 63) - 1024, p2(1, 63), p2(1, 63) + 2048, p2(1, 63) + 4096 + 2048, -p2(1, 63), -(p2(1, 63) + 2048), -(p2(1, 63) - 1024),
	p2(1, 64), p2(1, 64) + 4096, p2(1, 64) + 3*4096, -(p2(1, 64) + 4096), p2(1, 68) + p2(1, 16), p2(1, 83) + p2(1, 31), p2(1, 84) + p2(1, 32), p2(1, 100),
	1e21, 1e21 + 131072, -1e21, 1e300, -1e300, math.MaxFloat64, -math.MaxFloat64, math.SmallestNonzeroFloat64, -math.SmallestNonzeroFloat64,
	p2(1, -1022), p2(1, -1022) - math.SmallestNonzeroFloat64, 1e-17, -1e-17, -p2(1, -60), p2(1, -53), 1 - p2(1, -53), 1 + p2(1, -52),
	math.NaN(), math.Inf(1), math.Inf(-1),
	3002399751580331, 3, 94906265, 94906266, 94906267, 9007199254740991, 4503599627370497, 31, 32, 33, 63, 64, -31, -32, -33,
	0.1, 0.2, 0.3, 1e-7, 123456789.125, 16777216, 16777217, 3.4028234663852886e38, 3.4028235677973366e38, 1.401298464324817e-45, 7e-46,
}

func genFloat(r *vh.Rng) float64 {
	switch r.Pick(34, 20, 10, 8, 8, 6, 6, 4, 4, 8) {
	case 9: // the representation boundary itself
		f := p2(1, 53) - float64(r.Intn(3))
		if r.Bool() {
			f = -f
		}
		return f
	case 0:
		return specials[r.Intn(len(specials))]
	case 1:
		return float64(r.Intn(601) - 300)
	case 2: // int32-ish
		return float64(int32(r.U64()))
	case 3: // 2^k +- small
		k := r.Intn(70)
		d := float64(r.Intn(5) - 2)
		f := p2(1, k) + d
		if r.Bool() {
			f = -f
		}
		return f
	case 4: // 53-bit integer times 2^e
		m := float64(r.U64() >> 11)
		e := r.Intn(40) - 20
		f := p2(m, e)
		if r.Bool() {
			f = -f
		}
		return f
	case 5: // halves and quarters
		f := float64(r.Intn(1025)-512) + float64(r.Intn(4))*0.25
		return f
	case 6: // around 2^53 and 2^63
		base := []float64{p2(1, 53), p2(1, 63), p2(1, 64), p2(1, 32), p2(1, 31)}[r.Intn(5)]
		f := math.Float64frombits(math.Float64bits(base) + uint64(r.Intn(9)) - 4)
		if r.Bool() {
			f = -f
		}
		return f
	case 7: // random bits
		return math.Float64frombits(r.U64())
	default: // near half-integers below 256 (clamp rounding)
		f := float64(r.Intn(256)) + 0.5
		return math.Float64frombits(math.Float64bits(f) + uint64(r.Intn(3)) - 1)
	}
}

func isBitsRoute(s string) bool { return s == "f32arr" || s == "f32bits" || s == "f64bits" }

// genNaNBits: quiet/signalling, either sign, assorted payloads, and the two "standard" patterns
func genNaNBits(r *vh.Rng) uint64 {
	switch r.Intn(6) {
	case 0:
		return math.Float64bits(math.NaN())
	case 1:
		return 0x7FF8000000000000
	case 2:
		return 0xFFF8000000000000
	case 3:
		return 0x7FF0000000000123
	}
	u := 0x7FF0000000000000 | r.U64()&0x000FFFFFFFFFFFFF | uint64(r.Intn(2))<<63
	if u&0x000FFFFFFFFFFFFF == 0 {
		u |= 1
	}
	return u
}

func genShiftCount(r *vh.Rng) float64 {
	if r.Chance(70) {
		return float64(r.Intn(70) - 3)
	}
	return genFloat(r)
}

var wsUnits = []int{9, 10, 11, 12, 13, 32, 160, 0xFEFF, 0x2028, 0x2029, 0x1680, 0x2000, 0x200A, 0x202F, 0x205F, 0x3000}
var nonWsUnits = []int{0x85, 0x200B, 0x180E, 0x1C, 0x200C} // look like white space but are not StrWhiteSpaceChar

func unitsOf(s string) []int {
	out := []int{}
	for _, ch := range s {
		out = append(out, int(ch))
	}
	return out
}

func genStr(r *vh.Rng) Case {
	var core string
	switch r.Pick(22, 10, 10, 10, 12, 16, 10, 10, 18) {
	case 8: // LONG texts with a small value: zero padding after the prefix / before the digits
		n := padLen(r)
		switch r.Intn(4) {
		case 0:
			core = strconv.Itoa(r.Intn(100000))
			for len(core) < n {
				core = "0" + core
			}
			if r.Chance(30) {
				core += "." + strconv.Itoa(r.Intn(100))
			}
		case 1:
			core = strconv.FormatInt(int64(r.Intn(100000)), 2)
			for len(core) < n {
				core = "0" + core
			}
			core = "0b" + core
		case 2:
			core = strconv.FormatInt(int64(r.Intn(1<<30)), 16)
			for len(core) < n {
				core = "0" + core
			}
			core = "0x" + core
		default:
			core = strconv.FormatInt(int64(r.Intn(1<<30)), 8)
			for len(core) < n {
				core = "0" + core
			}
			core = "0o" + core
		}
		if r.Chance(20) {
			core = "-" + core
		}
	case 0: // radix literal of 1..80 digits
		pf := []string{"0x", "0X", "0b", "0B", "0o", "0O"}[r.Intn(6)]
		base := map[byte]int{'x': 16, 'X': 16, 'b': 2, 'B': 2, 'o': 8, 'O': 8}[pf[1]]
		n := 1 + r.Intn(20)
		if r.Chance(35) {
			n = 1 + r.Intn(80)
		}
		digs := "0123456789abcdefABCDEF"
		sb := pf
		for i := 0; i < n; i++ {
			d := r.Intn(base)
			if d >= 10 && r.Bool() {
				d += 6
			}
			sb += string(digs[d])
		}
		core = sb
	case 1: // radix edge shapes
		core = []string{"0x", "0b", "0o", "0x-1", "0x+1", "-0x10", "+0x10", "0b2", "0o8", "0xg", "00x1", "0x1.8", "0x7fffffffffffffff",
			"0x8000000000000000", "0xffffffffffffffff", "0x10000000000000000", "0x1fffffffffffff", "0x20000000000001", "0x20000000000003",
			"0b-1", "0o-7", "0x_1", "0x1_0"}[r.Intn(23)]
	case 2: // Infinity spellings
		core = []string{"Infinity", "+Infinity", "-Infinity", "infinity", "INFINITY", "Inf", "inf", "-inf", "+inf", "Infinit", "Infinityx",
			"NaN", "nan", "-NaN", "++1", "+-1", "--1", "1e", "1e+", ".", "+.", "-.", "e5", ".e5", "1 2", "1,2", "١", "1n", "1f"}[r.Intn(29)]
	case 3: // empty / whitespace only / zero forms
		core = []string{"", "-0", "+0", "0", "-0.0", "0e0", "-0e-5", "00", "-00", "0.", ".0", "-.0", "000123", "-000.5"}[r.Intn(14)]
	case 4: // integers of 1..25 digits
		n := 1 + r.Intn(25)
		sb := ""
		if r.Chance(30) {
			sb = []string{"-", "+"}[r.Intn(2)]
		}
		for i := 0; i < n; i++ {
			sb += string(rune('0' + r.Intn(10)))
		}
		core = sb
	case 5: // short decimals: up to 15 significant digits, small exponent
		ni := r.Intn(8)
		nf := r.Intn(8)
		sb := ""
		if r.Chance(30) {
			sb = []string{"-", "+"}[r.Intn(2)]
		}
		for i := 0; i < ni; i++ {
			sb += string(rune('0' + r.Intn(10)))
		}
		if nf > 0 || r.Chance(20) {
			sb += "."
		}
		for i := 0; i < nf; i++ {
			sb += string(rune('0' + r.Intn(10)))
		}
		if r.Chance(40) {
			sb += []string{"e", "E"}[r.Intn(2)] + []string{"", "+", "-"}[r.Intn(3)] + strconv.Itoa(r.Intn(15))
		}
		core = sb
	case 6: // big exponents, underscores, hex floats
		core = []string{"1e400", "-1e400", "1e308", "2e308", "1e21", "1e22", "123e20", "1_0", "1e1_0", "0x1p3", "1e+400", "9007199254740993",
			"9007199254740992", "9007199254740991", "18014398509481985", "1E5", "5e-1", "25e-1", "1.5e1", "12345678901234567890123"}[r.Intn(20)]
	default: // small integers and simple fractions
		core = []string{"5", "42", "-7", "1.5", "-2.25", "0.5", "100", "3.0", "7.50", "1e3"}[r.Intn(10)]
	}
	us := []int{}
	nlead := r.Pick(40, 35, 25)
	for i := 0; i < nlead; i++ {
		us = append(us, wsUnits[r.Intn(len(wsUnits))])
	}
	if r.Chance(6) {
		us = append(us, nonWsUnits[r.Intn(len(nonWsUnits))])
	}
	us = append(us, unitsOf(core)...)
	if r.Chance(4) {
		us = append(us, nonWsUnits[r.Intn(len(nonWsUnits))])
	}
	ntrail := r.Pick(50, 30, 20)
	for i := 0; i < ntrail; i++ {
		us = append(us, wsUnits[r.Intn(len(wsUnits))])
	}
	form := []string{"number", "plus", "mul1", "sub0", "negneg", "abs"}[r.Pick(40, 20, 15, 15, 5, 5)]
	c := Case{Kind: "str", Op: form, Str: us}
	if r.Chance(35) { // any unary operator / conversion applied to the string (ToNumber, ToInt32, ToInteger users ...)
		c.Op = "op:" + unOps[r.Intn(len(unOps))]
		if r.Chance(40) {
			c.Op = "op:" + []string{"UOr0", "UAt8", "USlice8", "USign", "UInt8", "UF64", "UNeg", "UInc", "UShr0", "ULength"}[r.Intn(10)]
		}
		c.Var = r.Intn(6)
	}
	if r.Chance(35) { // the text comes from the host as a Go string, long enough to be an importedString
		c.Imp = 1 + r.Intn(2)
		if r.Chance(60) { // one character of each white-space / look-alike class at an edge of the numeric text
			edge := []int{0xFEFF, 0x85, 0xA0, 0x2028, 0x2029, 0x1680, 0x3000, 0x180E, 0x200B, 0xFEFF, 0x85}[r.Intn(11)]
			switch r.Intn(4) {
			case 0:
				c.Str = append([]int{edge}, c.Str...)
			case 1:
				c.Str = append(c.Str, edge)
			case 2: // innermost: directly before the numeric text
				k := 0
				for k < len(c.Str) && (c.Str[k] <= 32 || c.Str[k] >= 128) {
					k++
				}
				c.Str = append(append(append([]int{}, c.Str[:k]...), edge), c.Str[k:]...)
			default: // directly after it
				k := len(c.Str)
				for k > 0 && (c.Str[k-1] <= 32 || c.Str[k-1] >= 128) {
					k--
				}
				c.Str = append(append(append([]int{}, c.Str[:k]...), edge), c.Str[k:]...)
			}
		}
		n := 0
		for _, u := range c.Str {
			switch {
			case u < 0x80:
				n++
			case u < 0x800:
				n += 2
			default:
				n += 3
			}
		}
		for want := 17 + r.Intn(10); n < want; n++ { // pad with ASCII spaces beyond 16 bytes
			if r.Bool() {
				c.Str = append([]int{32}, c.Str...)
			} else {
				c.Str = append(c.Str, 32)
			}
		}
	}
	return c
}

func genCase(r *vh.Rng) Case {
	switch r.Pick(25, 26, 9, 13, 10, 9, 5, 3) {
	case 5:
		return genPow(r)
	case 6:
		return genPInt(r)
	case 7:
		return genPFloat(r)
	case 0:
		op := unOps[r.Intn(len(unOps))]
		a := genFloat(r)
		if op == "UClamp" && r.Chance(60) { // ties and near-ties of the clamp rounding
			a = float64(r.Intn(259)-2) + 0.5
			a = math.Float64frombits(math.Float64bits(a) + uint64(r.Intn(3)) - 1)
		}
		if (op == "UInc" || op == "UDec") && r.Chance(40) { // results on and next to +/-2^53
			a = p2(1, 53) - float64(r.Intn(3))
			if r.Bool() {
				a = -a
			}
		}
		return Case{Kind: "un", Op: op, Var: r.Intn(6), A: sOf(a)}
	case 1:
		op := binOps[r.Intn(len(binOps))]
		a, b := genFloat(r), genFloat(r)
		switch op {
		case "BShl", "BSar", "BShr":
			b = genShiftCount(r)
		case "BAdd", "BSub":
			if r.Chance(30) { // sums landing on and next to 2^53
				a = p2(1, 53) - float64(r.Intn(3))
				b = float64(r.Intn(4))
				if op == "BSub" {
					b = -b
				}
				if r.Bool() {
					a, b = -a, -b
				}
			}
		case "BMul":
			if r.Chance(15) {
				a = []float64{3, -3, 0, -1, 1, 94906267, 3002399751580331, p2(1, 26), p2(1, 27)}[r.Intn(9)]
				b = []float64{3002399751580331, -3002399751580331, 0, -5, 7, 94906267, 94906265, p2(1, 26), p2(1, 27) + 1, 3}[r.Intn(10)]
			}
		}
		return Case{Kind: "bin", Op: op, Var: r.Intn(3), A: sOf(a), B: sOf(b)}
	case 2:
		c := Case{Kind: "val", RA: valRoutes[r.Intn(len(valRoutes))], A: sOf(genFloat(r))}
		if isBitsRoute(c.RA) && r.Chance(45) {
			c.A = strconv.FormatUint(genNaNBits(r), 10)
		}
		return c
	case 3:
		rel := []string{"same", "negzero", "other"}[r.Pick(75, 10, 15)]
		c := Case{Kind: "eq", RA: eqRoutes[r.Intn(len(eqRoutes))], RB: eqRoutes[r.Intn(len(eqRoutes))], Rel: rel, A: sOf(genFloat(r))}
		if rel == "other" {
			c.B = sOf(genFloat(r))
		}
		if isBitsRoute(c.RA) || isBitsRoute(c.RB) {
			if r.Chance(55) {
				c.A = strconv.FormatUint(genNaNBits(r), 10)
			}
		}
		return c
	default:
		return genStr(r)
	}
}

func main() {
	m := vh.ParseArgs()
	w := vh.NewWriter(m.Out)
	defer w.Close()
	switch m.Cmd {
	case "gen":
		r := vh.NewRng(m.Seed)
		for i := 0; i < m.N; i++ {
			c := genCase(r)
			vh.Guard(w, vh.MustJSON(c), failTerm, 20, func() vh.Record { return runCase(c) })
		}
	case "replay":
		for _, raw := range vh.ReadCases(m.In) {
			var c Case
			if err := json.Unmarshal(raw, &c); err != nil {
				panic(err)
			}
			vh.Guard(w, raw, failTerm, 20, func() vh.Record { return runCase(c) })
		}
	}
}
