package main

import (
	"fmt"
	"math"
	"math/big"

	"verifharness/vh"
)

// The generator runs the history while it builds it (it needs the live views), then the finished case is
// executed again from its JSON by runCase: records always come from the replay path.
//
// C17 has no open finding: nothing is avoided (the regions of F11, F10, C17-N1..N9, all repaired in /repo, are
// generated freely).  The only exclusion is a NaN moved between the two float kinds by set(typedArray): the
// payload of the stored NaN is implementation-defined.

var bufSizes = []int{0, 1, 2, 3, 4, 7, 8, 9, 12, 15, 16, 17, 24, 31, 32, 33, 40, 48, 63, 64}

func toInteger(f float64) int64 {
	switch {
	case math.IsNaN(f):
		return 0
	case f >= math.MaxInt64:
		return math.MaxInt64
	case f <= math.MinInt64:
		return math.MinInt64
	}
	return int64(f)
}
func relIdx(rel, l int64) int64 {
	if rel >= 0 {
		return min(rel, l)
	}
	return max(l+rel, 0)
}
func argInt(a *IArg, dflt int64) int64 {
	if a == nil {
		return dflt
	}
	return toInteger(f64FromBits(a.N))
}

var hugeIdx = []float64{2147483648, 4294967295, 4294967297, 9007199254740992, 9223372036854775808, 1e21, -2147483649, -9223372036854775808, -1e21}
var fracIdx = []float64{0.5, 1.5, -0.5, 2.5, 0.9999999999999999, -1.5, 1e-7}

func (g *gen) pickDet(pref int) int {
	// 1+buffer id; mostly the buffer the operation works on
	if g.r.Chance(75) && pref >= 0 {
		return pref + 1
	}
	return 1 + g.r.Intn(len(g.e.bufs))
}

type gen struct {
	r    *vh.Rng
	e    *env
	wild bool
}

// an index-like argument around the length l; detP = percent chance of a detaching valueOf
func (g *gen) idx(l int, detP int, buf int) *IArg {
	r := g.r
	var f float64
	switch r.Pick(40, 12, 10, 8, 5, 3, 3, 3, 5) {
	case 0:
		f = float64(r.Intn(l + 1))
	case 1:
		f = -float64(1 + r.Intn(l+1))
	case 2:
		f = float64(l + 1 + r.Intn(3))
	case 3:
		f = fracIdx[r.Intn(len(fracIdx))] + float64(r.Intn(l+1))
	case 4:
		f = math.Copysign(0, -1)
	case 5:
		f = math.NaN()
	case 6:
		f = math.Inf(1 - 2*r.Intn(2))
	case 7:
		f = hugeIdx[r.Intn(len(hugeIdx))]
	case 8:
		f = -float64(l + 1 + r.Intn(3))
	}
	if math.IsNaN(f) {
		f = math.Float64frombits(0x7ff8000000000000)
	}
	a := &IArg{N: bitsOf(f)}
	if r.Chance(detP) {
		a.D = g.pickDet(buf)
	}
	return a
}
func (g *gen) optIdx(l, detP, buf, noneP int) *IArg {
	if g.r.Chance(noneP) {
		return nil
	}
	return g.idx(l, detP, buf)
}
func plain(v int) *IArg { return &IArg{N: bitsOf(float64(v))} }

var numClasses = []float64{
	0, math.Copysign(0, -1), 1, -1, 127, 128, 129, 255, 256, -128, -129, 32767, 32768, 65535, 65536, -32769,
	255.5, 254.5, 0.5, 1.5, 2.5, -0.5, 0.49999999999999994, 253.50000000000003, 255.49999999999997, 300, -7,
	2147483647, 2147483648, -2147483648, -2147483649, 4294967295, 4294967296, 4294967297,
	9007199254740991, 9007199254740992, 9223372036854775808, 9223372036854777856, 9223372036854773760, -9223372036854777856,
	18446744073709551616, 1e21, -1e21, 1.7976931348623157e308, 5e-324,
	// binary32 rounding: halfway cases, overflow threshold, subnormals
	1.00000005960464477539, 1.00000005960464499744, 1.00000017881393432617, 16777217, 16777219, 3.4028235677973366e38, 3.4028235677973362e38,
	3.4028234663852886e38, 7.006492321624085e-46, 7.0064923216240862e-46, 1.401298464324817e-45, 1.1754943508222875e-38, 1.1754942807573643e-38,
	2.1019476964872256e-45, 0.1, 3.14159, -2.5e-40,
}

func finiteBits(r *vh.Rng) float64 {
	for {
		f := math.Float64frombits(r.U64())
		if !math.IsNaN(f) {
			return f
		}
	}
}

func (g *gen) val(kind int, detP int, buf int, allowMismatch bool) VArg {
	r := g.r
	big_ := isBig(kind)
	if allowMismatch && r.Chance(3) {
		big_ = !big_
	}
	var a VArg
	if big_ {
		a.Big = true
		switch r.Pick(30, 30, 40) {
		case 0:
			a.Z = fmt.Sprint(int64(r.Intn(512)) - 256)
		case 1:
			cs := []string{"0", "1", "-1", "9223372036854775807", "9223372036854775808", "-9223372036854775808", "-9223372036854775809",
				"18446744073709551615", "18446744073709551616", "18446744073709551621", "1180591620717411303427", "-36893488147419103225",
				"340282366920938463463374607431768211455"}
			a.Z = cs[r.Intn(len(cs))]
		case 2:
			x := new(big.Int).SetUint64(r.U64())
			if r.Bool() {
				x.Lsh(x, uint(r.Intn(12)))
			}
			if r.Bool() {
				x.Neg(x)
			}
			a.Z = x.String()
		}
	} else {
		var f float64
		for tries := 0; ; tries++ {
			if kind == 2 && r.Chance(35) { // Uint8Clamped: ties and near-ties
				f = []float64{0.5, 1.5, 2.5, 3.5, 4.5, 126.5, 253.5, 254.5, 255.5, 0.49999999999999994, 2.5000000000000004, 2.4999999999999996, 254.50000000000003, -0.5, 255.49999999999997}[r.Intn(15)]
				break
			}
			switch r.Pick(45, 4, 4, 25, 22) {
			case 0:
				f = numClasses[r.Intn(len(numClasses))]
			case 1:
				f = math.NaN()
			case 2:
				f = math.Inf(1 - 2*r.Intn(2))
			case 3:
				f = float64(r.Intn(70000)-35000) / float64([]int{1, 1, 2, 4, 8}[r.Intn(5)])
			case 4:
				f = finiteBits(r)
			}
			break
		}
		if math.IsNaN(f) {
			f = math.Float64frombits(0x7ff8000000000000)
		}
		a.Z = bitsOf(f)
	}
	if r.Chance(detP) {
		a.D = g.pickDet(buf)
	}
	return a
}

func (g *gen) liveLen(b int) int {
	if g.e.bufs[b].ab.Detached() {
		return 0
	}
	return len(g.e.bufs[b].mem)
}

func (g *gen) op() *Op {
	r, e := g.r, g.e
	nv, nd, nb := len(e.views), len(e.dvs), len(e.bufs)
	w := []int{14, 5, 10, 14, 7, 8, 8, 7, 4, 5, 3, 8, 9, 3, 4, 2, 2, 3, 9, 3, 8}
	if nv == 0 {
		w = []int{30, 8, 0, 0, 0, 0, 0, 0, 0, 0, 0, 0, 0, 2, 2, 1, 0, 0, 0, 0, 0}
	} else if nv > 12 {
		w[0], w[8], w[9], w[19] = 1, 1, 1, 0
	}
	if nd == 0 {
		w[11], w[12] = 0, 0
	}
	if nb > 8 {
		w[8], w[13], w[19] = 0, 0, 0
	}
	which := r.Pick(w...)
	detP := 4
	switch which {
	case 0: // ctor
		k := r.Intn(11)
		b := r.Intn(nb)
		n := len(e.bufs[b].mem)
		sz := esize[k]
		o := &Op{O: "ctor", K: k, B: b}
		if r.Chance(72) {
			off := 0
			if n/sz > 0 {
				off = sz * r.Intn(n/sz+1)
			}
			if r.Chance(25) {
				off = 0
			}
			maxl := (n - off) / sz
			if r.Chance(30) {
				if off > 0 || r.Bool() {
					o.A1 = plain(off)
				}
			} else {
				o.A1 = plain(off)
				o.A2 = plain(r.Intn(maxl + 1))
				if r.Chance(25) {
					o.A2 = plain(maxl)
				}
			}
		} else {
			o.A1 = g.optIdx(n, detP, b, 15)
			o.A2 = g.optIdx(n/sz, detP, b, 35)
		}
		return o
	case 1: // dvctor
		b := r.Intn(nb)
		n := len(e.bufs[b].mem)
		o := &Op{O: "dvctor", B: b}
		if r.Chance(70) {
			off := r.Intn(n + 1)
			if r.Chance(40) {
				off = 0
			}
			o.A1 = plain(off)
			if r.Chance(60) {
				o.A2 = plain(r.Intn(n - off + 1))
			}
		} else {
			o.A1 = g.optIdx(n, detP, b, 15)
			o.A2 = g.optIdx(n, detP, b, 35)
		}
		return o
	case 2, 3: // get / set
		v := r.Intn(nv)
		vm := e.views[v]
		o := &Op{O: "get", V: v, K: vm.kind}
		mismatchOK := true
		switch r.Pick(60, 12, 8, 8, 12) {
		case 0:
			s := fmt.Sprint(r.Intn(vm.length + 1))
			o.Key = &s
		case 1:
			s := fmt.Sprint(-1 - r.Intn(3))
			o.Key = &s
		case 2:
			s := fmt.Sprint(vm.length + r.Intn(3))
			o.Key = &s
		case 3:
			s := []string{"2147483648", "4294967296", "9007199254740992", "9223372036854775808", "1000000000000000000000", "-9007199254740992", "4294967295"}[r.Intn(7)]
			o.Key = &s
			// (beyond 2^53 goja treats the key like a non-index numeric key)
		case 4:
			o.Ks = []string{"-0", "1.5", "NaN", "Infinity", "-Infinity", "1e-7", "0.5", "-1.5", "1e+21x"}[r.Intn(8)]
		}
		if which == 3 {
			o.O = "set"
			val := g.val(vm.kind, detP, vm.buf, mismatchOK)
			o.Val = &val
		}
		return o
	case 4: // setarr
		v := r.Intn(nv)
		vm := e.views[v]
		n := r.Intn(6)
		if r.Chance(50) && vm.length > 0 {
			n = r.Intn(vm.length + 1)
			if n > 8 {
				n = 8
			}
		}
		o := &Op{O: "setarr", V: v, K: vm.kind}
		for i := 0; i < n; i++ {
			x := g.val(vm.kind, 6, vm.buf, true)
			o.Src = append(o.Src, x)
		}
		if r.Chance(70) {
			o.A1 = plain(r.Intn(max(vm.length-n, 0) + 1))
		} else {
			o.A1 = g.idx(vm.length, detP, vm.buf)
		}
		return o
	case 5: // settyped
		v, s := r.Intn(nv), r.Intn(nv)
		if r.Chance(50) { // prefer a source on the same buffer (overlap)
			for i := 0; i < 6; i++ {
				s = r.Intn(nv)
				if e.views[s].buf == e.views[v].buf {
					break
				}
			}
		}
		dm, sm := e.views[v], e.views[s]
		o := &Op{O: "settyped", V: v, S: s}
		if r.Chance(70) {
			o.A1 = plain(r.Intn(max(dm.length-sm.length, 0) + 1))
		} else {
			o.A1 = g.idx(dm.length, detP, dm.buf)
		}
		if g.nanBetweenFloatKinds(sm, dm.kind) {
			return nil
		}
		return o
	case 6: // copywithin
		v := r.Intn(nv)
		vm := e.views[v]
		o := &Op{O: "copywithin", V: v, A1: g.idx(vm.length, detP, vm.buf), A2: g.idx(vm.length, detP, vm.buf), A3: g.optIdx(vm.length, detP, vm.buf, 35)}
		return o
	case 7: // fill
		v := r.Intn(nv)
		vm := e.views[v]
		val := g.val(vm.kind, detP, vm.buf, true)
		o := &Op{O: "fill", V: v, K: vm.kind, Val: &val, A1: g.optIdx(vm.length, detP, vm.buf, 30), A2: g.optIdx(vm.length, detP, vm.buf, 40)}
		return o
	case 8:
		v := r.Intn(nv)
		vm := e.views[v]
		return &Op{O: "slice", V: v, A1: g.optIdx(vm.length, detP, vm.buf, 25), A2: g.optIdx(vm.length, detP, vm.buf, 40)}
	case 9:
		v := r.Intn(nv)
		vm := e.views[v]
		return &Op{O: "subarray", V: v, A1: g.optIdx(vm.length, detP, vm.buf, 25), A2: g.optIdx(vm.length, detP, vm.buf, 40)}
	case 10:
		return &Op{O: "reverse", V: r.Intn(nv)}
	case 11, 12: // dvget / dvset
		d := r.Intn(nd)
		dm := e.dvs[d]
		k := r.Intn(11)
		o := &Op{O: "dvget", V: d, K: k, Le: r.Bool()}
		if r.Chance(30) { // the big-endian default
			o.Le, o.NoLe = false, true
		}
		if r.Chance(75) {
			o.A1 = plain(r.Intn(max(dm.length-esize[k]+2, 1)))
		} else {
			o.A1 = g.idx(dm.length, detP, dm.buf)
		}
		if which == 12 {
			o.O = "dvset"
			val := g.val(k, detP, dm.buf, true)
			o.Val = &val
		}
		return o
	case 13: // bufslice
		b := r.Intn(nb)
		n := len(e.bufs[b].mem)
		o := &Op{O: "bufslice", B: b, A1: g.optIdx(n, detP, b, 25), A2: g.optIdx(n, detP, b, 40)}
		return o
	case 14: // gowrite
		b := r.Intn(nb)
		n := len(e.bufs[b].mem)
		if n == 0 {
			return nil
		}
		return &Op{O: "gowrite", B: b, I: r.Intn(n), X: r.Intn(256)}
	case 15:
		return &Op{O: "detach", B: r.Intn(nb)}
	case 16:
		return &Op{O: "lens", V: r.Intn(nv)}
	case 17:
		return &Op{O: "sort", V: r.Intn(nv)}
	case 20: // the Go owner exports a typed-array view and reads it / writes through it
		v := r.Intn(nv)
		for i := 0; i < 4; i++ { // prefer multi-byte kinds at a non-zero byteOffset
			if e.views[v].off > 0 && esize[e.views[v].kind] > 1 {
				break
			}
			v = r.Intn(nv)
		}
		vm := e.views[v]
		o := &Op{O: "goexport", V: v, K: vm.kind, Via: r.Intn(2)}
		if r.Chance(55) {
			o.O = "goexportwrite"
			o.I = r.Intn(vm.length + 1)
			u := r.U64()
			if esize[vm.kind] < 8 {
				u &= 1<<(8*uint(esize[vm.kind])) - 1
			}
			o.Raw = fmt.Sprint(u)
		}
		return o
	case 19: // new T(typedArray)
		sv := r.Intn(nv)
		k := r.Intn(11)
		if r.Chance(25) {
			k = e.views[sv].kind
		}
		if g.nanBetweenFloatKinds(e.views[sv], k) {
			return nil
		}
		return &Op{O: "ctorfrom", K: k, S: sv}
	case 18: // includes / indexOf / lastIndexOf
		v := r.Intn(nv)
		vm := e.views[v]
		o := &Op{O: []string{"includes", "indexof", "lastindexof"}[r.Intn(3)], V: v, K: vm.kind}
		var x VArg
		nb, okN := g.neighbourAt(vm, []int{-1, vm.length}[r.Intn(2)])
		switch {
		case r.Chance(30) && okN: // the element just in FRONT of / BEHIND the view (buffer bytes or slab canaries):
			// a read outside the view would find it
			x = nb
			o.Val = &x
			f := []float64{-float64(vm.length + 1), -float64(vm.length + 2), -2147483649, -9223372036854775808, math.Inf(-1),
				float64(vm.length), float64(vm.length + 1), 4294967296, math.Inf(1), -1, 0}[r.Intn(11)]
			o.A1 = &IArg{N: bitsOf(f)}
			if o.O == "lastindexof" && r.Chance(30) {
				o.A1 = nil
			}
			return o
		case r.Chance(55) && vm.length > 0 && !e.bufs[vm.buf].ab.Detached(): // an element that is there
			x = g.elementAt(vm, r.Intn(vm.length))
		case r.Chance(12):
			x = VArg{U: true}
		case r.Chance(30):
			x = g.srcBoundary(vm.kind, vm.kind)
		default:
			x = g.val(vm.kind, 0, -1, true)
		}
		x.D = 0
		o.Val = &x
		o.A1 = g.optIdx(vm.length, detP, vm.buf, 45)
		return o
	}
	return nil
}

// boundary classes of a SOURCE kind for set(typedArray): what the source elements hold decides what the
// per-element conversion to the target kind has to do (negative -> clamped 0, 128..255 -> signed negative, ...)
var intBoundary = []float64{-1, 0, 1, 127, 128, -128, -129, 255, 256, -2, 5, 32767, 32768, -32768, 65535, 65536,
	2147483647, 2147483648, -2147483648, 4294967295, 4294967296, 200, -100}
var floatBoundary = []float64{math.NaN(), math.Inf(1), math.Inf(-1), math.Copysign(0, -1), 0.5, 1.5, 2.5, -0.5, -1.5, 254.5, 255.5,
	127.5, 128, -129, 300, -1, 0.1, 0, 16777217, 2147483648, 4294967297, 9223372036854777856, -9223372036854777856, 1e21, 3.4028235677973366e38,
	1e-46, 65535.5, -128, 255}
var bigBoundary = []string{"0", "-1", "1", "127", "128", "-128", "255", "256", "9223372036854775807", "-9223372036854775808",
	"9223372036854775808", "18446744073709551615", "18446744073709551616", "-9223372036854775809", "-255"}

func (g *gen) srcBoundary(sk, dk int) VArg {
	r := g.r
	if isBig(sk) {
		return VArg{Big: true, Z: bigBoundary[r.Intn(len(bigBoundary))]}
	}
	var f float64
	if sk == 7 || sk == 8 {
		for {
			f = floatBoundary[r.Intn(len(floatBoundary))]
			if !(math.IsNaN(f) && sk == 7 && dk == 8) { // Float32 NaN -> Float64: payload implementation-defined
				break
			}
		}
	} else {
		f = intBoundary[r.Intn(len(intBoundary))]
	}
	if math.IsNaN(f) {
		f = math.Float64frombits(0x7ff8000000000000)
	}
	return VArg{Z: bitsOf(f)}
}

// pairScenario: views of the two kinds of the ordered pair, source filled with boundary values, then set(typedArray)
func (g *gen) pairScenario(pair int) []Op {
	r := g.r
	sk, dk := pair/11, pair%11
	ssz, dsz := esize[sk], esize[dk]
	sb, db := 0, 1
	if r.Chance(45) || len(g.e.bufs) < 2 {
		db = 0
	}
	ssize, dsize := len(g.e.bufs[sb].mem), len(g.e.bufs[db].mem)
	n := 1 + r.Intn(5)
	if n > ssize/ssz {
		n = ssize / ssz
	}
	dlen := n + r.Intn(3)
	if dlen > dsize/dsz {
		dlen = dsize / dsz
	}
	if n > dlen {
		n = dlen
	}
	os, od := 0, 0
	if r.Chance(65) {
		os = ssz * r.Intn((ssize-n*ssz)/ssz+1)
	}
	if r.Chance(65) {
		od = dsz * r.Intn((dsize-dlen*dsz)/dsz+1)
	}
	ops := []Op{
		{O: "ctor", K: sk, B: sb, A1: plain(os), A2: plain(n)},
		{O: "ctor", K: dk, B: db, A1: plain(od), A2: plain(dlen)},
	}
	fill := Op{O: "setarr", V: 0, K: sk, A1: plain(0)}
	for i := 0; i < n; i++ {
		fill.Src = append(fill.Src, g.srcBoundary(sk, dk))
	}
	ops = append(ops, fill, Op{O: "settyped", V: 1, S: 0, A1: plain(r.Intn(dlen - n + 1))})
	if r.Chance(60) {
		ops = append(ops, Op{O: "ctorfrom", K: dk, S: 0})
	}
	// searches on the source view with the values just stored (BEFORE the element conversion: 0.1 is not in a
	// Float32Array that was given 0.1, 256 is not in an Int8Array), the other zero, and NaN
	for j := 0; j < 2 && n > 0; j++ {
		x := fill.Src[r.Intn(n)]
		if !x.Big {
			f := f64FromBits(x.Z)
			switch {
			case f == 0 && r.Chance(60):
				x.Z = bitsOf(math.Copysign(0, -1))
				if math.Signbit(f) {
					x.Z = bitsOf(0)
				}
			case r.Chance(15):
				x.Z = bitsOf(math.Float64frombits(0x7ff8000000000000))
			case sk == 7 && r.Chance(30): // the float32-rounded value IS there
				x.Z = bitsOf(float64(float32(f)))
			}
		}
		o := Op{O: []string{"includes", "indexof", "lastindexof"}[r.Intn(3)], V: 0, K: sk, Val: &VArg{Big: x.Big, Z: x.Z}}
		if r.Chance(40) {
			o.A1 = g.idx(n, 3, 0)
		}
		ops = append(ops, o)
	}
	return ops
}

func genCase(r *vh.Rng, wild bool, pair int) Case {
	nb := 1 + r.Intn(3)
	var c Case
	c.Wild = wild
	var init [][]byte
	for i := 0; i < nb; i++ {
		bi := BufInit{N: bufSizes[r.Intn(len(bufSizes))], Seed: r.Intn(2147483647)}
		if pair >= 0 && i < 2 {
			bi.N = []int{48, 56, 64}[r.Intn(3)]
		}
		init = append(init, lcgBytes(bi.N, bi.Seed))
		c.Bufs = append(c.Bufs, bi)
	}
	g := &gen{r: r, e: newEnv(init), wild: wild}
	nops := 6 + r.Intn(20)
	if pair >= 0 {
		for _, o := range g.pairScenario(pair) {
			o := o
			if !g.e.valid(&o) {
				continue
			}
			g.e.runOp(&o)
			c.Ops = append(c.Ops, o)
		}
	}
	for tries := 0; len(c.Ops) < nops && tries < 200; tries++ {
		o := g.op()
		if o == nil || !g.e.valid(o) {
			continue
		}
		so := g.e.runOp(o)
		c.Ops = append(c.Ops, *o)
		if so.panicked {
			break
		}
	}
	return c
}


// elementAt decodes element i of the view from the buffer memory, as a search value equal to it
func (g *gen) elementAt(vm viewMeta, i int) VArg {
	m := g.e.bufs[vm.buf].mem[vm.off+i*esize[vm.kind]:]
	var u uint64
	for j := esize[vm.kind] - 1; j >= 0; j-- {
		u = u<<8 | uint64(m[j])
	}
	var f float64
	switch vm.kind {
	case 0:
		f = float64(int8(u))
	case 1, 2:
		f = float64(uint8(u))
	case 3:
		f = float64(int16(u))
	case 4:
		f = float64(uint16(u))
	case 5:
		f = float64(int32(u))
	case 6:
		f = float64(uint32(u))
	case 7:
		f = float64(math.Float32frombits(uint32(u)))
	case 8:
		f = math.Float64frombits(u)
	case 9:
		return VArg{Big: true, Z: fmt.Sprint(int64(u))}
	case 10:
		return VArg{Big: true, Z: fmt.Sprint(u)}
	}
	if math.IsNaN(f) {
		f = math.Float64frombits(0x7ff8000000000000)
	}
	return VArg{Z: bitsOf(f)}
}

// nanBetweenFloatKinds: the source (a float array) holds a NaN that would be converted to the other float kind;
// the payload of the stored NaN is implementation-defined, so such cases are not generated
func (g *gen) nanBetweenFloatKinds(sm viewMeta, dk int) bool {
	if sm.kind == dk || sm.kind < 7 || sm.kind > 8 || dk < 7 || dk > 8 {
		return false
	}
	if g.e.bufs[sm.buf].ab.Detached() {
		return false
	}
	for i := 0; i < sm.length; i++ {
		if x := g.elementAt(sm, i); !x.Big && math.IsNaN(f64FromBits(x.Z)) {
			return true
		}
	}
	return false
}

// neighbourAt decodes the would-be element i (i = -1 or i = length) next to the view from the memory around it:
// other bytes of the buffer, or the canary bytes of the slab
func (g *gen) neighbourAt(vm viewMeta, i int) (VArg, bool) {
	b := g.e.bufs[vm.buf]
	sz := esize[vm.kind]
	if b.slab == nil || b.ab.Detached() {
		return VArg{}, false
	}
	pos := guard + vm.off + i*sz
	if pos < 0 || pos+sz > len(b.slab) {
		return VArg{}, false
	}
	// decode through elementAt on a pseudo view over the slab
	save := b.mem
	b.mem = b.slab
	x := g.elementAt(viewMeta{buf: vm.buf, off: pos, length: 1, kind: vm.kind}, 0)
	b.mem = save
	if !x.Big && math.IsNaN(f64FromBits(x.Z)) {
		return VArg{}, false
	}
	return x, true
}
