// C17 correspondence harness: histories over ArrayBuffers supplied by Go inside canary-guarded slabs,
// typed-array views of all 11 kinds, DataViews, Go-side writes and detaches.  After every step the whole
// slab of every buffer is compared (canaries in Go, buffer bytes by the Gallina model).
package main

import (
	"encoding/json"
	"fmt"
	"math"
	"math/big"
	"reflect"
	"unsafe"
	"strconv"
	"strings"

	"github.com/dop251/goja"
	"verifharness/vh"
)

// ---------------------------------------------------------------- case format

type IArg struct {
	N string `json:"n"`           // float64 bit pattern, decimal
	D int    `json:"d,omitempty"` // 1+buffer id detached by valueOf; 0 = plain number
}
type VArg struct {
	U   bool   `json:"u,omitempty"` // undefined (search elements only)
	Big bool   `json:"big,omitempty"`
	Z   string `json:"z"` // Number: float64 bit pattern (decimal); BigInt: decimal integer
	D   int    `json:"d,omitempty"`
}
type Op struct {
	O   string  `json:"o"`
	K   int     `json:"k,omitempty"`   // kind 0..10
	B   int     `json:"b,omitempty"`   // buffer id
	V   int     `json:"v,omitempty"`   // view / dataview id
	S   int     `json:"s,omitempty"`   // source view id
	A1  *IArg   `json:"a1,omitempty"`
	A2  *IArg   `json:"a2,omitempty"`
	A3  *IArg   `json:"a3,omitempty"`
	Val *VArg   `json:"val,omitempty"`
	Src []VArg  `json:"src,omitempty"`
	Key *string `json:"key,omitempty"` // integer key (decimal, exactly representable) ...
	Ks  string  `json:"ks,omitempty"`  // ... or a canonical numeric string that is no integer index
	Le  bool    `json:"le,omitempty"`
	NoLe bool   `json:"nole,omitempty"`
	Via  int    `json:"via,omitempty"`  // goexport*: 0 = Value.Export(), 1 = Runtime.ExportTo(&[]T)
	Raw  string `json:"raw,omitempty"`  // goexportwrite: the element's bit pattern (unsigned, decimal) // DataView get/set: omit the littleEndian argument
	I   int     `json:"i,omitempty"` // GoWrite index
	X   int     `json:"x,omitempty"` // GoWrite byte
}
type BufInit struct {
	N    int `json:"n"`
	Seed int `json:"seed"`
}
type Case struct {
	Bufs []BufInit `json:"bufs"` // initial contents: N bytes of the generator lcgBytes(Seed)
	Ops  []Op      `json:"ops"`
	Wild bool      `json:"wild,omitempty"`
}

func lcgBytes(n, seed int) []byte {
	x := uint64(seed) % 2147483648
	b := make([]byte, n)
	for i := range b {
		x = (x*1103515245 + 12345) % 2147483648
		b[i] = byte((x / 65536) % 256)
	}
	return b
}

var kindNames = []string{"Int8", "Uint8", "Uint8C", "Int16", "Uint16", "Int32", "Uint32", "Float32", "Float64", "BigInt64", "BigUint64"}
var jsCtor = []string{"Int8Array", "Uint8Array", "Uint8ClampedArray", "Int16Array", "Uint16Array", "Int32Array", "Uint32Array", "Float32Array", "Float64Array", "BigInt64Array", "BigUint64Array"}
var dvName = []string{"Int8", "Uint8", "Uint8", "Int16", "Uint16", "Int32", "Uint32", "Float32", "Float64", "BigInt64", "BigUint64"}
var esize = []int{1, 1, 1, 2, 2, 4, 4, 4, 8, 8, 8}

func isBig(k int) bool { return k >= 9 }

const guard = 16
const failTerm = "(mkCase [] [] [mkO XPanic false 0 0] 0)%Z"

// ---------------------------------------------------------------- execution environment

type bufRec struct {
	slab []byte // nil for buffers allocated by goja
	mem  []byte // the buffer's memory (kept after a detach: it is the owner's memory)
	prev []byte
	ab   goja.ArrayBuffer
}
type viewMeta struct {
	buf, off, length, kind int
}
type env struct {
	rt    *goja.Runtime
	bufs  []*bufRec
	views []viewMeta
	dvs   []viewMeta
	B     *goja.Object

	hashValid bool
	lastHash  uint64
}

func canaryByte(i int) byte { return byte(0xC3 ^ (i * 29)) }

func newEnv(init [][]byte) *env {
	rt := goja.New()
	e := &env{rt: rt}
	rt.RunString("var B=[],V=[],D=[];")
	e.B = rt.Get("B").ToObject(rt)
	for _, content := range init {
		n := len(content)
		slab := make([]byte, n+2*guard)
		for i := range slab {
			slab[i] = canaryByte(i)
		}
		copy(slab[guard:], content)
		ab := rt.NewArrayBuffer(slab[guard : guard+n])
		e.bufs = append(e.bufs, &bufRec{slab: slab, mem: slab[guard : guard+n], prev: append([]byte(nil), content...), ab: ab})
		e.B.Set(strconv.Itoa(len(e.bufs)-1), rt.ToValue(ab))
	}
	rt.Set("detach", func(i int) {
		if i >= 0 && i < len(e.bufs) {
			e.bufs[i].ab.Detach()
		}
	})
	return e
}

// registerNewBuffers picks up buffers the script pushed onto B
func (e *env) registerNewBuffers() {
	n := int(e.B.Get("length").ToInteger())
	for i := len(e.bufs); i < n; i++ {
		ab, _ := e.B.Get(strconv.Itoa(i)).Export().(goja.ArrayBuffer)
		mem := ab.Bytes()
		e.bufs = append(e.bufs, &bufRec{mem: mem, prev: nil, ab: ab})
	}
}

func (e *env) canariesOK() bool {
	for _, b := range e.bufs {
		if b.slab == nil {
			continue
		}
		n := len(b.slab)
		for i := 0; i < guard; i++ {
			if b.slab[i] != canaryByte(i) || b.slab[n-1-i] != canaryByte(n-1-i) {
				return false
			}
		}
	}
	return true
}

func (e *env) hashGen(mul, mask uint64) uint64 {
	h := uint64(7)
	for _, b := range e.bufs {
		for _, x := range b.mem {
			h = (h*mul + uint64(x) + 1) & mask
		}
		h = (h*mul + 300) & mask
	}
	return h
}

func (e *env) detMask() uint64 {
	var m uint64
	for i, b := range e.bufs {
		if b.ab.Detached() {
			m |= 1 << uint(i)
		}
	}
	return m
}

// stepHash returns the 32-bit memory hash, or -1 when it did not change since the previous step
func (e *env) stepHash() string {
	h := e.hashGen(257, 4294967295)
	if e.hashValid && h == e.lastHash {
		return "(-1)"
	}
	e.hashValid, e.lastHash = true, h
	return strconv.FormatUint(h, 10)
}

// ---------------------------------------------------------------- rendering of arguments

func f64FromBits(s string) float64 {
	u, _ := strconv.ParseUint(s, 10, 64)
	return math.Float64frombits(u)
}
func bitsOf(f float64) string { return strconv.FormatUint(math.Float64bits(f), 10) }

func jsNum(f float64) string {
	switch {
	case math.IsNaN(f):
		return "NaN"
	case math.IsInf(f, 1):
		return "Infinity"
	case math.IsInf(f, -1):
		return "-Infinity"
	case f == 0 && math.Signbit(f):
		return "-0"
	}
	return strconv.FormatFloat(f, 'g', -1, 64)
}

func wrapDetach(d int, prim string) string {
	if d == 0 {
		return prim
	}
	return fmt.Sprintf("({valueOf(){detach(%d);return %s}})", d-1, prim)
}
func jsI(a *IArg) string {
	if a == nil {
		return "undefined"
	}
	return wrapDetach(a.D, jsNum(f64FromBits(a.N)))
}
func jsV(a VArg) string {
	if a.U {
		return "undefined"
	}
	if a.Big {
		return wrapDetach(a.D, a.Z+"n")
	}
	return wrapDetach(a.D, jsNum(f64FromBits(a.Z)))
}
func coqZs(s string) string {
	if strings.HasPrefix(s, "-") {
		return "(" + s + ")"
	}
	return s
}

// dy renders a float64 as "m e" with value m * 2^e (e = 9999 for the specials)
func dy(f float64) string {
	switch {
	case math.IsNaN(f):
		return "0 9999"
	case math.IsInf(f, 1):
		return "1 9999"
	case math.IsInf(f, -1):
		return "(-1) 9999"
	case f == 0:
		if math.Signbit(f) {
			return "2 9999"
		}
		return "0 0"
	}
	fr, ex := math.Frexp(f)
	m := int64(fr * (1 << 53))
	e := ex - 53
	for m%2 == 0 {
		m /= 2
		e++
	}
	return coqZs(strconv.FormatInt(m, 10)) + " " + coqZs(strconv.Itoa(e))
}
func coqI(a *IArg) string {
	if a == nil {
		return "None"
	}
	return "(Some " + coqI1(a) + ")"
}
func coqI1(a *IArg) string { return fmt.Sprintf("(cI %s %d)", dy(f64FromBits(a.N)), a.D) }
func coqS(a VArg) string {
	switch {
	case a.U:
		return "SUndef"
	case a.Big:
		return "(SBig " + coqZs(a.Z) + ")"
	}
	return "(sN " + dy(f64FromBits(a.Z)) + ")"
}
func coqV(a VArg) string {
	if a.Big {
		return fmt.Sprintf("(cB %s %d)", coqZs(a.Z), a.D)
	}
	return fmt.Sprintf("(cV %s %d)", dy(f64FromBits(a.Z)), a.D)
}

// ---------------------------------------------------------------- running one op

type stepOut struct {
	coqOp, coqObs, human string
	panicked             bool
}

func errClass(rt *goja.Runtime, err error) string {
	if ex, ok := err.(*goja.Exception); ok {
		if o, ok := ex.Value().(*goja.Object); ok {
			switch o.Get("name").String() {
			case "TypeError":
				return "(XErr TypeError)"
			case "RangeError":
				return "(XErr RangeError)"
			}
		}
	}
	return "XOther"
}

func valObs(v goja.Value) string {
	if v == nil || goja.IsUndefined(v) {
		return "XUndef"
	}
	switch x := v.Export().(type) {
	case bool:
		return fmt.Sprintf("(XBool %v)", x)
	case int64:
		return fmt.Sprintf("(XNum %s)", dy(float64(x)))
	case float64:
		if math.IsNaN(x) {
			x = math.Float64frombits(0x7ff8000000000000)
		}
		return fmt.Sprintf("(XNum %s)", dy(x))
	case *big.Int:
		return fmt.Sprintf("(XBig %s)", coqZs(x.String()))
	}
	return "XOther"
}

func (e *env) valid(o *Op) bool {
	nv, nd, nb := len(e.views), len(e.dvs), len(e.bufs)
	okArg := func(a *IArg) bool { return a == nil || (a.D >= 0 && a.D <= nb) }
	if !okArg(o.A1) || !okArg(o.A2) || !okArg(o.A3) {
		return false
	}
	if o.Val != nil && (o.Val.D < 0 || o.Val.D > nb) {
		return false
	}
	for _, s := range o.Src {
		if s.D < 0 || s.D > nb {
			return false
		}
	}
	if o.K < 0 || o.K > 10 {
		return false
	}
	switch o.O {
	case "ctor", "dvctor", "bufslice", "detach":
		return o.B >= 0 && o.B < nb
	case "gowrite":
		return o.B >= 0 && o.B < nb && o.I >= 0 && o.I < len(e.bufs[o.B].mem)
	case "get":
		return o.V >= 0 && o.V < nv && (o.Key != nil || o.Ks != "")
	case "set":
		return o.V >= 0 && o.V < nv && (o.Key != nil || o.Ks != "") && o.Val != nil
	case "setarr":
		return o.V >= 0 && o.V < nv && o.A1 != nil
	case "settyped":
		return o.V >= 0 && o.V < nv && o.S >= 0 && o.S < nv && o.A1 != nil
	case "copywithin":
		return o.V >= 0 && o.V < nv && o.A1 != nil && o.A2 != nil
	case "fill":
		return o.V >= 0 && o.V < nv && o.Val != nil
	case "ctorfrom":
		return o.S >= 0 && o.S < nv
	case "goexport":
		return o.V >= 0 && o.V < nv
	case "goexportwrite":
		_, ok := new(big.Int).SetString(o.Raw, 10)
		return o.V >= 0 && o.V < nv && ok
	case "includes", "indexof", "lastindexof":
		return o.V >= 0 && o.V < nv && o.Val != nil && o.Val.D == 0
	case "slice", "subarray", "reverse", "lens", "sort":
		return o.V >= 0 && o.V < nv
	case "dvget":
		return o.V >= 0 && o.V < nd && o.A1 != nil
	case "dvset":
		return o.V >= 0 && o.V < nd && o.A1 != nil && o.Val != nil
	}
	return false
}

func (e *env) runOp(o *Op) (out stepOut) {
	var src, coqOp string
	kind := 0 // what to do with the result: 0 value, 1 new view, 2 new dataview, 3 lens
	keyJS, keyCoq := "", ""
	if o.Key != nil {
		bi, _ := new(big.Int).SetString(*o.Key, 10)
		f, _ := new(big.Float).SetInt(bi).Float64()
		keyJS = "[" + jsNum(f) + "]"
		if f == 0 {
			keyJS = "[0]"
		}
		keyCoq = "(KIdx " + coqZs(*o.Key) + ")"
	} else if o.Ks != "" {
		keyJS = "[" + strconv.Quote(o.Ks) + "]"
		keyCoq = "KNonInt"
	}
	switch o.O {
	case "ctor":
		args := fmt.Sprintf("B[%d]", o.B)
		if o.A1 != nil || o.A2 != nil {
			args += "," + jsI(o.A1)
		}
		if o.A2 != nil {
			args += "," + jsI(o.A2)
		}
		src = fmt.Sprintf("var t=new %s(%s);V.push(t);t.length", jsCtor[o.K], args)
		coqOp = fmt.Sprintf("wCtor %s %d %s %s", kindNames[o.K], o.B, coqI(o.A1), coqI(o.A2))
		kind = 1
	case "dvctor":
		args := fmt.Sprintf("B[%d]", o.B)
		if o.A1 != nil || o.A2 != nil {
			args += "," + jsI(o.A1)
		}
		if o.A2 != nil {
			args += "," + jsI(o.A2)
		}
		src = fmt.Sprintf("var t=new DataView(%s);D.push(t);t.byteLength", args)
		coqOp = fmt.Sprintf("wDvCtor %d %s %s", o.B, coqI(o.A1), coqI(o.A2))
		kind = 2
	case "get":
		src = fmt.Sprintf("V[%d]%s", o.V, keyJS)
		coqOp = fmt.Sprintf("wGet %d %s", o.V, keyCoq)
	case "set":
		src = fmt.Sprintf("V[%d]%s=%s;undefined", o.V, keyJS, jsV(*o.Val))
		coqOp = fmt.Sprintf("wSet %d %s %s", o.V, keyCoq, coqV(*o.Val))
	case "setarr":
		var js, cq []string
		for _, s := range o.Src {
			js = append(js, jsV(s))
			cq = append(cq, coqV(s))
		}
		src = fmt.Sprintf("V[%d].set([%s],%s);undefined", o.V, strings.Join(js, ","), jsI(o.A1))
		coqOp = fmt.Sprintf("wSetArr %d %s %s", o.V, vh.CoqList(cq), coqI1(o.A1))
	case "settyped":
		src = fmt.Sprintf("V[%d].set(V[%d],%s);undefined", o.V, o.S, jsI(o.A1))
		coqOp = fmt.Sprintf("wSetTyped %d %d %s", o.V, o.S, coqI1(o.A1))
	case "copywithin":
		src = fmt.Sprintf("V[%d].copyWithin(%s,%s,%s);undefined", o.V, jsI(o.A1), jsI(o.A2), jsI(o.A3))
		coqOp = fmt.Sprintf("wCopyWithin %d %s %s %s", o.V, coqI1(o.A1), coqI1(o.A2), coqI(o.A3))
	case "fill":
		src = fmt.Sprintf("V[%d].fill(%s,%s,%s);undefined", o.V, jsV(*o.Val), jsI(o.A1), jsI(o.A2))
		coqOp = fmt.Sprintf("wFill %d %s %s %s", o.V, coqV(*o.Val), coqI(o.A1), coqI(o.A2))
	case "slice":
		src = fmt.Sprintf("var t=V[%d].slice(%s,%s);V.push(t);B.push(t.buffer);t.length", o.V, jsI(o.A1), jsI(o.A2))
		coqOp = fmt.Sprintf("wSlice %d %s %s", o.V, coqI(o.A1), coqI(o.A2))
		kind = 1
	case "ctorfrom":
		src = fmt.Sprintf("var t=new %s(V[%d]);V.push(t);B.push(t.buffer);t.length", jsCtor[o.K], o.S)
		coqOp = fmt.Sprintf("wCtorFrom %s %d", kindNames[o.K], o.S)
		kind = 1
	case "subarray":
		src = fmt.Sprintf("var t=V[%d].subarray(%s,%s);V.push(t);t.length", o.V, jsI(o.A1), jsI(o.A2))
		coqOp = fmt.Sprintf("wSubarray %d %s %s", o.V, coqI(o.A1), coqI(o.A2))
		kind = 1
	case "reverse":
		src = fmt.Sprintf("V[%d].reverse();undefined", o.V)
		coqOp = fmt.Sprintf("wReverse %d", o.V)
	case "includes", "indexof", "lastindexof":
		name := map[string]string{"includes": "includes", "indexof": "indexOf", "lastindexof": "lastIndexOf"}[o.O]
		args := jsV(*o.Val)
		if o.A1 != nil {
			args += "," + jsI(o.A1)
		}
		src = fmt.Sprintf("V[%d].%s(%s)", o.V, name, args)
		coqOp = fmt.Sprintf("w%s %d %s %s", map[string]string{"includes": "Includes", "indexof": "IndexOf", "lastindexof": "LastIndexOf"}[o.O], o.V, coqS(*o.Val), coqI(o.A1))
	case "sort":
		src = fmt.Sprintf("V[%d].sort();undefined", o.V)
		coqOp = fmt.Sprintf("wSort %d", o.V)
	case "dvget":
		leJS, leCoq := fmt.Sprintf(",%v", o.Le), fmt.Sprintf("(Some %v)", o.Le)
		if o.NoLe {
			leJS, leCoq = "", "None"
		}
		src = fmt.Sprintf("D[%d].get%s(%s%s)", o.V, dvName[o.K], jsI(o.A1), leJS)
		coqOp = fmt.Sprintf("wDvGet %d %s %s %s", o.V, kindNames[dvKind(o.K)], coqI1(o.A1), leCoq)
	case "dvset":
		leJS, leCoq := fmt.Sprintf(",%v", o.Le), fmt.Sprintf("(Some %v)", o.Le)
		if o.NoLe {
			leJS, leCoq = "", "None"
		}
		src = fmt.Sprintf("D[%d].set%s(%s,%s%s);undefined", o.V, dvName[o.K], jsI(o.A1), jsV(*o.Val), leJS)
		coqOp = fmt.Sprintf("wDvSet %d %s %s %s %s", o.V, kindNames[dvKind(o.K)], coqI1(o.A1), coqV(*o.Val), leCoq)
	case "bufslice":
		src = fmt.Sprintf("var t=B[%d].slice(%s,%s);B.push(t);t.byteLength", o.B, jsI(o.A1), jsI(o.A2))
		coqOp = fmt.Sprintf("wBufSlice %d %s %s", o.B, coqI(o.A1), coqI(o.A2))
		kind = 4
	case "lens":
		src = fmt.Sprintf("[V[%d].length,V[%d].byteLength,V[%d].byteOffset]", o.V, o.V, o.V)
		coqOp = fmt.Sprintf("wLens %d", o.V)
		kind = 3
	case "goexport", "goexportwrite":
		return e.runExport(o)
	case "gowrite":
		e.bufs[o.B].mem[o.I] = byte(o.X)
		out.coqOp = fmt.Sprintf("wGoWrite %d %d %d", o.B, o.I, o.X)
		out.coqObs = fmt.Sprintf("mkO XUndef %s %s %d", vh.CoqBool(e.canariesOK()), e.stepHash(), e.detMask())
		out.human = "gowrite"
		return
	case "detach":
		e.bufs[o.B].ab.Detach()
		out.coqOp = fmt.Sprintf("wDetach %d", o.B)
		out.coqObs = fmt.Sprintf("mkO XUndef %s %s %d", vh.CoqBool(e.canariesOK()), e.stepHash(), e.detMask())
		out.human = "detach"
		return
	}
	out.coqOp = coqOp
	var res string
	func() {
		defer func() {
			if x := recover(); x != nil {
				res = "XPanic"
				out.panicked = true
				out.human = fmt.Sprintf("HOSTPANIC %v", x)
			}
		}()
		v, err := e.rt.RunString(src)
		if err != nil {
			res = errClass(e.rt, err)
			out.human = err.Error()
			if len(out.human) > 60 {
				out.human = out.human[:60]
			}
			return
		}
		switch kind {
		case 1, 2, 4:
			n := v.ToInteger()
			res = fmt.Sprintf("(XNew %d)", n)
			if kind == 4 {
				e.registerNewBuffers()
			} else {
				e.registerNewBuffers()
				e.registerView(kind == 2)
			}
		case 3:
			a := v.ToObject(e.rt)
			res = fmt.Sprintf("(XLens %d %d %d)", a.Get("0").ToInteger(), a.Get("1").ToInteger(), a.Get("2").ToInteger())
		default:
			res = valObs(v)
		}
		out.human = res
	}()
	if !out.panicked && strings.HasPrefix(res, "(XErr") || res == "XOther" {
		// a failed constructor-like op must not leave a half-registered object behind
		e.rt.RunString(fmt.Sprintf("V.length=%d;D.length=%d;B.length=%d;", len(e.views), len(e.dvs), len(e.bufs)))
	}
	out.coqObs = fmt.Sprintf("mkO %s %s %s %d", res, vh.CoqBool(e.canariesOK()), e.stepHash(), e.detMask())
	return
}

var exportTypes = []reflect.Type{reflect.TypeOf([]int8(nil)), reflect.TypeOf([]uint8(nil)), reflect.TypeOf([]uint8(nil)),
	reflect.TypeOf([]int16(nil)), reflect.TypeOf([]uint16(nil)), reflect.TypeOf([]int32(nil)), reflect.TypeOf([]uint32(nil)),
	reflect.TypeOf([]float32(nil)), reflect.TypeOf([]float64(nil)), reflect.TypeOf([]int64(nil)), reflect.TypeOf([]uint64(nil))}

func bytesHash(b []byte) uint64 {
	h := uint64(7)
	for _, x := range b {
		h = (h*257 + uint64(x) + 1) & 0xffffffff
	}
	return h
}

// runExport: the Go owner obtains the native slice of the typed-array VIEW V[v] (Value.Export() or ExportTo(&[]T)).
// Observed: where the slice starts relative to the start of the buffer's memory, its length, and a hash of its bytes
// (goexport), or the effect of a write of element j through it (goexportwrite).  The slice is only dereferenced when
// it lies inside the memory the harness owns (the slab of the buffer, or the buffer's own bytes).
func (e *env) runExport(o *Op) (out stepOut) {
	kind := e.views[o.V].kind
	if o.O == "goexport" {
		out.coqOp = fmt.Sprintf("wGoExport %d", o.V)
	} else {
		out.coqOp = fmt.Sprintf("wGoExportWrite %d %d %s", o.V, o.I, o.Raw)
	}
	res := "XOther"
	func() {
		defer func() {
			if x := recover(); x != nil {
				res = "XPanic"
				out.human = fmt.Sprintf("HOSTPANIC %v", x)
			}
		}()
		v, err := e.rt.RunString(fmt.Sprintf("V[%d]", o.V))
		if err != nil {
			return
		}
		var sl reflect.Value
		if o.Via == 1 {
			p := reflect.New(exportTypes[kind])
			if err := e.rt.ExportTo(v, p.Interface()); err != nil {
				out.human = "ExportTo: " + err.Error()
				return
			}
			sl = p.Elem()
		} else {
			x := v.Export()
			sl = reflect.ValueOf(x)
			if sl.Kind() != reflect.Slice || sl.Type() != exportTypes[kind] {
				out.human = fmt.Sprintf("Export type %T", x)
				return
			}
		}
		n, sz := sl.Len(), esize[kind]
		ptr := sl.Pointer()
		b := e.bufs[e.views[o.V].buf]
		base := uintptr(unsafe.Pointer(unsafe.SliceData(b.mem)))
		if b.ab.Detached() {
			base = 0 // the data pointer of a detached buffer is nil
		}
		// the memory the harness owns around this buffer
		lo, hi := base, base+uintptr(len(b.mem))
		if b.slab != nil {
			lo = uintptr(unsafe.Pointer(unsafe.SliceData(b.slab)))
			hi = lo + uintptr(len(b.slab))
		}
		inside := !b.ab.Detached() && ptr >= lo && ptr+uintptr(n*sz) <= hi
		rel := int64(ptr) - int64(base)
		if o.O == "goexport" {
			h := int64(-1)
			if n == 0 {
				h = int64(bytesHash(nil))
			} else if inside {
				h = int64(bytesHash(unsafe.Slice((*byte)(unsafe.Pointer(ptr)), n*sz)))
			}
			if n == 0 && !b.ab.Detached() {
				rel = int64(e.views[o.V].off) // an empty slice has no meaningful address; length 0 is what matters
				if ptr != 0 && int64(ptr)-int64(base) != rel {
					rel = int64(ptr) - int64(base)
				}
			}
			res = fmt.Sprintf("(XExp %s %d %s)", coqZs(strconv.FormatInt(rel, 10)), n, coqZs(strconv.FormatInt(h, 10)))
			return
		}
		// goexportwrite
		if o.I < 0 || o.I >= n {
			res = "XUndef"
			return
		}
		if !inside {
			out.human = "exported slice outside the owner's memory"
			return // XOther
		}
		raw, _ := new(big.Int).SetString(o.Raw, 10)
		u := raw.Uint64()
		p := unsafe.Slice((*byte)(unsafe.Pointer(ptr+uintptr(o.I*sz))), sz)
		for i := 0; i < sz; i++ {
			p[i] = byte(u >> (8 * uint(i)))
		}
		res = "XUndef"
	}()
	if out.human == "" {
		out.human = res
	}
	out.panicked = res == "XPanic"
	out.coqObs = fmt.Sprintf("mkO %s %s %s %d", res, vh.CoqBool(e.canariesOK()), e.stepHash(), e.detMask())
	return
}

func dvKind(k int) int {
	if k == 2 {
		return 1
	}
	return k
}

// registerView records the metadata of the view the script just pushed (used by the generator only)
func (e *env) registerView(dv bool) {
	arr := "V"
	if dv {
		arr = "D"
	}
	v, err := e.rt.RunString(fmt.Sprintf("(function(){var t=%s[%s.length-1];var b=B.indexOf(t.buffer);var det=0;try{var x=t.byteOffset}catch(e){det=1};return [b, det?0:t.byteOffset, det?0:(t.length===undefined?t.byteLength:t.length)]})()", arr, arr))
	if err != nil {
		panic(err)
	}
	a := v.ToObject(e.rt)
	m := viewMeta{buf: int(a.Get("0").ToInteger()), off: int(a.Get("1").ToInteger()), length: int(a.Get("2").ToInteger())}
	if dv {
		e.dvs = append(e.dvs, m)
	} else {
		k, _ := e.rt.RunString("V[V.length-1].constructor.name")
		for i, n := range jsCtor {
			if n == k.String() {
				m.kind = i
			}
		}
		e.views = append(e.views, m)
	}
}

func decodeHex(s string) []byte {
	b := make([]byte, len(s)/2)
	for i := range b {
		x, _ := strconv.ParseUint(s[2*i:2*i+2], 16, 8)
		b[i] = byte(x)
	}
	return b
}

func runCase(c Case) vh.Record {
	var init [][]byte
	var initCoq []string
	for _, bi := range c.Bufs {
		init = append(init, lcgBytes(bi.N, bi.Seed))
		initCoq = append(initCoq, fmt.Sprintf("(%d,%d)", bi.N, bi.Seed%2147483648))
	}
	e := newEnv(init)
	var ops, obs, human []string
	tags := map[string]bool{}
	nontrivial := false
	for i := range c.Ops {
		o := &c.Ops[i]
		if !e.valid(o) {
			continue
		}
		so := e.runOp(o)
		ops = append(ops, so.coqOp)
		obs = append(obs, so.coqObs)
		if len(human) < 30 {
			human = append(human, fmt.Sprintf("%d:%s=%s", i, o.O, so.human))
		}
		tags["op:"+o.O] = true
		switch {
		case strings.Contains(so.coqObs, "XErr TypeError"):
			tags["res:TypeError"] = true
		case strings.Contains(so.coqObs, "XErr RangeError"):
			tags["res:RangeError"] = true
		case strings.Contains(so.coqObs, "XPanic"):
			tags["res:HostPanic"] = true
		}
		if hasDetachArg(o) {
			tags["arg:detaching-valueOf"] = true
		}
		if o.O == "detach" || hasDetachArg(o) {
			nontrivial = true
		}
		if (o.O == "dvget" || o.O == "dvset") && o.NoLe {
			tags["dv:default-big-endian"] = true
		}
		switch o.O {
		case "get", "set", "setarr", "settyped", "copywithin", "fill", "slice", "subarray", "reverse", "sort", "includes", "indexof", "lastindexof", "goexport", "goexportwrite":
			if o.V < len(e.views) && e.views[o.V].off > 0 {
				tags["view:byteOffset>0"] = true
			}
		}
		if o.O == "ctorfrom" && o.S < len(e.views) {
			tags["ctorpair:"+kindNames[e.views[o.S].kind]+"_to_"+kindNames[o.K]] = true
		}
		if o.O == "settyped" && o.V < len(e.views) && o.S < len(e.views) {
			d, sv := e.views[o.V], e.views[o.S]
			tags["pair:"+kindNames[sv.kind]+"_to_"+kindNames[d.kind]] = true
			if d.buf == sv.buf && d.kind != sv.kind {
				tags["settyped:same-buffer-different-kind"] = true
			}
			if d.buf == sv.buf && d.kind == sv.kind {
				tags["settyped:same-buffer-same-kind"] = true
			}
		}
		if (o.O == "goexport" || o.O == "goexportwrite") && o.V < len(e.views) {
			tags[fmt.Sprintf("export:%s:off>0=%v", kindNames[e.views[o.V].kind], e.views[o.V].off > 0)] = true
		}
		if o.O == "ctor" || o.O == "get" || o.O == "set" || o.O == "fill" {
			tags["kind:"+kindNames[o.K]] = true
		}
		if so.panicked {
			break
		}
	}
	if c.Wild {
		tags["wild"] = true
	}
	hs := strings.Join(human, " | ")
	if len(hs) > 1800 {
		hs = hs[:1800]
	}
	var tl []string
	for t := range tags {
		tl = append(tl, t)
	}
	return vh.Record{
		Case:       vh.MustJSON(c),
		Coq:        fmt.Sprintf("(mkCase %s %s %s %d)%%Z", vh.CoqList(initCoq), vh.CoqList(paren(ops)), vh.CoqList(obs), e.hashGen(1000003, 2305843009213693951)),
		Obs:        hs,
		Tags:       tl,
		Nontrivial: nontrivial || len(ops) >= 5,
	}
}

func paren(l []string) []string {
	out := make([]string, len(l))
	for i, s := range l {
		out[i] = "(" + s + ")"
	}
	return out
}

func main() {
	m := vh.ParseArgs()
	w := vh.NewWriter(m.Out)
	defer w.Close()
	switch m.Cmd {
	case "gen":
		r := vh.NewRng(m.Seed)
		scen := 0
		for i := 0; i < m.N; i++ {
			wild := false
			// 2 of 5 cases start with a set(typedArray) scenario for one ordered (source kind, target kind) pair;
			// the pairs are walked systematically so that all 121 occur in every run
			pair := -1
			if !wild && i%5 < 2 {
				pair = (int(m.Seed%1000)*31 + scen) % 121
				scen++
			}
			c := genCase(r.Fork(), wild, pair)
			vh.Guard(w, vh.MustJSON(c), failTerm, 20, func() vh.Record { return runCase(c) })
		}
	case "replay":
		for _, raw := range vh.ReadCases(m.In) {
			var c Case
			if err := json.Unmarshal(raw, &c); err != nil {
				panic(err)
			}
			vh.Guard(w, raw, failTerm, 20, func() vh.Record { return runCase(c) })
		}
	}
}

func hasDetachArg(o *Op) bool {
	for _, a := range []*IArg{o.A1, o.A2, o.A3} {
		if a != nil && a.D != 0 {
			return true
		}
	}
	if o.Val != nil && o.Val.D != 0 {
		return true
	}
	for _, x := range o.Src {
		if x.D != 0 {
			return true
		}
	}
	return false
}
