// c16: correspondence + race harness for property C16 (Programs and primitive values are
// shareable across goroutines).
//
// Case kinds
//
//	prog: a generated program compiled ONCE and run by g goroutines (own Runtime each, reps runs each)
//	      concurrently; observation = fingerprint of every goroutine's canonicalised results and of an
//	      isolated sequential run of a SEPARATELY compiled Program (so nothing is pre-warmed).
//	vals: primitive values built once (unscanned imported strings, concatenations, substrings, symbols,
//	      numbers, StringFromUTF16 ...) used by g runtimes concurrently through a shared ops Program and
//	      through the Go API; same observation.
//	xrt:  an Object of runtime A handed to runtime B through the Go API: TypeError expected, never a panic.
//
// With -x mode=race (binary built with -race) the same cases are run and "@@CASE i"/"@@END i" markers
// are written to stderr so that the driver can attribute the race detector's reports to cases.
package main

import (
	"encoding/json"
	"fmt"
	"hash/fnv"
	"os"
	"strings"
	"sync"

	"github.com/dop251/goja"

	"verifharness/vh"
)

type ValSpec struct {
	T    string   `json:"t"`
	S    string   `json:"s,omitempty"`
	A    int      `json:"a,omitempty"`
	B    int      `json:"b,omitempty"`
	From int      `json:"from,omitempty"`
	To   int      `json:"to,omitempty"`
	N    int64    `json:"n,omitempty"`
	F    float64  `json:"f,omitempty"`
	U    []uint16 `json:"u,omitempty"`
}

type XrtSpec struct {
	Obj  string `json:"obj"`  // what is handed over: object|array|func|date|own|prim|nil
	Path string `json:"path"` // set|tovalue|setfield|newarray|goret|callarg|callthis|rtnew
	Ret  string `json:"ret,omitempty"` // goret: declared result type of the Go function: iface|value|valueerr|object|objecterr|multi
}

type Case struct {
	Kind string    `json:"kind"`
	G    int       `json:"g,omitempty"`
	Reps int       `json:"reps,omitempty"`
	Src  string    `json:"src,omitempty"`
	Feat []string  `json:"feat,omitempty"`
	Cg   []string  `json:"cg,omitempty"`  // some runtimes get a host-provided global object (SetGlobalObject) that already has these properties
	Pre  bool      `json:"pre,omitempty"` // run the shared Program in such a runtime BEFORE the concurrent phase
	Vals []ValSpec `json:"vals,omitempty"`
	Xrt  *XrtSpec  `json:"xrt,omitempty"`
}

// ------------------------------------------------------------------------------------------------
// model terms: which modelled VM steps a feature exercises (coq/C16/Model.v vop)

var featOps = map[string][]string{
	"regex":     {"ONewRegexp 1", "ORegexExec 1", "OLoadLit 1"},
	"tmpl":      {"OTaggedTmpl 2 4", "OTmplRead 2 false 0", "OTmplRead 2 true 1", "OTmplWriteAttempt 2 false 0"},
	"tmplredef": {"OTaggedTmpl 2 4", "OTmplRead 2 false 0", "OTmplRedefine 2 false 0", "OTmplRedefine 2 true 1"},
	"class":     {"ONewFunc 3", "OEnterFunc 3 false", "OLocal 1"},
	"eval":      {"OEnterFunc 4 true", "OEvalBindVar", "OLookupName 4", "ODeleteBinding"},
	"with":      {"OEnterBlock 5", "OLookupName 5"},
	"fold":      {"OLoadLit 6"},
	"closure":   {"ONewFunc 7", "OEnterFunc 7 false", "OEnterBlock 7"},
	"gen":       {"ONewFunc 8", "OEnterFunc 8 false", "OLocal 2"},
	"stack":     {"OStackTrace"},
	"misc":      {"OLocal 3"},
	"globals":   {"OBindGlobal 9", "OLocal 4"},
}

func coqOps(feat []string) string {
	ops := []string{"OFetch"}
	for _, f := range feat {
		ops = append(ops, featOps[f]...)
	}
	return vh.CoqList(ops)
}

// ------------------------------------------------------------------------------------------------
// program generator: every snippet is an expression statement pushing strings to R

var uniStrs = []string{"a1 a22 a333", "xä1 aö22 a333 €a4", "aaa", "", "a1\U0001F600a2 a3", "A1a2A3", "a1\na2\na3"}
var patterns = []string{`a(\d+)`, `a`, `(?<n>\d)+`, `^a`, `\ba`, `a(?=\d)`, `(a)|(\d)`, `[^\s]+`, `a.`, `(?<!x)a\d`, `\d$`}
var flagsList = []string{"g", "y", "gi", "gu", "gm", "gs", "", "i", "u", "gy"}

func jsStr(s string) string {
	b, _ := json.Marshal(s)
	return string(b)
}

func snipRegex(r *vh.Rng) string {
	p := patterns[r.Intn(len(patterns))]
	f := flagsList[r.Intn(len(flagsList))]
	s := jsStr(uniStrs[r.Intn(len(uniStrs))])
	li := r.Intn(6)
	if r.Chance(35) {
		re2 := []string{`a(\d+)`, `a`, `[^\s]+`, `\d`, `a.`, `(a)|(\d)`, `[a-z]\d`}
		p = re2[r.Intn(len(re2))]
		f = []string{"g", "y", "gy", "gi", "gm"}[r.Intn(5)]
		s = jsStr([]string{"a1 a22 a333", "a1a2a3a4", "aaa a1", "a1 b2 c3 a4"}[r.Intn(4)])
		return fmt.Sprintf(`(function(){var re=/%s/%s,s=%s,o=[],m,n=0;while((m=re.exec(s))!==null&&n++<8){o.push(m[0]+"@"+re.lastIndex)}re.lastIndex=2;o.push(String(re.exec(s)),re.lastIndex,s.replace(re,"#"));R.push("re2:"+o.join())})();`, p, f, s)
	}
	switch r.Intn(4) {
	case 0: // exec loop with lastIndex
		return fmt.Sprintf(`(function(){var re=/%s/%s,s=%s,o=[],m,n=0;while((m=re.exec(s))!==null&&n++<8){o.push(m[0]+"@"+re.lastIndex+":"+m.index);if(!re.global&&!re.sticky)break;if(m[0]==="")re.lastIndex++}re.lastIndex=%d;o.push(re.test(s)+"/"+re.lastIndex);R.push(o.join())})();`, p, f, s, li)
	case 1: // the literal evaluated twice in one run: distinct objects, independent lastIndex
		return fmt.Sprintf(`(function(){function lit(){return /%s/%s}var a=lit(),b=lit(),s=%s;a.lastIndex=%d;a.test(s);R.push([a===b,a.lastIndex,b.lastIndex,b.test(s),b.lastIndex,a.source===b.source,a.flags].join())})();`, p, f, s, li)
	case 2: // replace / match / split / matchAll with start offsets
		return fmt.Sprintf(`(function(){var s=%s,re=/%s/%s;var o=[s.replace(re,"<$&>"),String(s.match(re)),s.split(re).length,s.search(re)];re.lastIndex=%d;o.push(String(re.exec(s)),re.lastIndex);try{o.push(Array.from(s.matchAll(re)).length)}catch(e){o.push(e.name)}R.push(o.join("|"))})();`, s, p, f, li)
	default: // sticky stepping
		return fmt.Sprintf(`(function(){var re=/%s/%s,s=%s,o=[];for(var i=0;i<=s.length&&i<7;i++){re.lastIndex=i;var m=re.exec(s);o.push(m?m.index+"-"+re.lastIndex:"n"+re.lastIndex)}R.push(o.join())})();`, p, f, s)
	}
}

func snipTmpl(r *vh.Rng, redef bool) string {
	k := r.Intn(50)
	body := fmt.Sprintf("`a${i}b\\n${i*%d}c\\u0041${%q}`", k+1, "z")
	if r.Chance(20) {
		body = "`\\unicode and ${i} \\xerxes`" // invalid escapes: cooked undefined
	}
	pre := fmt.Sprintf(`(function(){var seen=[];function tag(s){seen.push(s);var v=[].slice.call(arguments,1);return s.raw.join("|")+"#"+s.join("|")+"#"+v.join()}function f(i){return tag%s}var o=[f(1),f(%d)];`, body, k)
	mid := `o.push(seen[0]===seen[1],Object.isFrozen(seen[0]),Object.isFrozen(seen[0].raw),seen[0].length,Array.isArray(seen[0]));`
	switch r.Intn(5) {
	case 0:
		mid += `try{seen[0][0]="z"}catch(e){o.push(e.name)}o.push(seen[0][0]);`
	case 1:
		mid += `o.push((function(){"use strict";try{seen[1][0]="z";return "nothrow"}catch(e){return e.name}})(),delete seen[0].raw);`
	case 2:
		mid += `try{seen[0].length=0}catch(e){o.push(e.name)}try{seen[0].raw.sort()}catch(e){o.push(e.name)}try{seen[1].push(1)}catch(e){o.push(e.name)}o.push(seen[0].length);`
	case 3:
		mid += `o.push(JSON.stringify(Object.getOwnPropertyDescriptor(seen[0],0)),JSON.stringify(Object.getOwnPropertyDescriptor(seen[0].raw,"length")),Object.keys(seen[1]).join());`
	default:
		mid += `try{Object.defineProperty(seen[0],0,{value:"other"});o.push("defined")}catch(e){o.push(e.name)}o.push(seen[0][0]);`
	}
	if redef {
		// a PERMITTED no-op redefinition (same value) / freeze of an already frozen template object
		switch r.Intn(4) {
		case 0:
			mid += `Object.defineProperty(seen[0],0,{value:seen[0][0]});o.push(seen[0][0]);`
		case 1:
			mid += `Object.freeze(seen[1]);o.push(Object.isFrozen(seen[1]));`
		case 2:
			mid += `Object.freeze(seen[0].raw);Object.seal(seen[0]);o.push(seen[0].raw[0]);`
		default:
			mid += `o.push(Reflect.defineProperty(seen[1].raw,1,{value:seen[1].raw[1],writable:false}));`
		}
	}
	return pre + mid + `R.push(o.join("~"))})();`
}

func snipClass(r *vh.Rng) string {
	k := r.Intn(100)
	switch r.Intn(3) {
	case 0:
		return fmt.Sprintf(`(function(){class A{#x=%d;static #c=0;#m(){return this.#x*2}get v(){A.#c++;return this.#m()+A.#c}static has(o){return #x in o}static #sm(){return "s"}static t(){return A.#sm()}}class B extends A{#x="b";w(){return this.#x+this.v}}var b=new B(),o=[b.w(),b.v,A.has(b),A.has({}),A.t()];try{A.prototype.v}catch(e){o.push(e.name)}R.push(o.join())})();`, k)
	case 1:
		return fmt.Sprintf(`(function(){function mk(){return class{#p;constructor(v){this.#p=v}get p(){return this.#p}static eq(a,b){return a.#p===b.#p}}}var C1=mk(),C2=mk(),a=new C1(%d),b=new C1(%d),c=new C2(1),o=[a.p,C1.eq(a,b)];try{C1.eq(a,c)}catch(e){o.push(e.name)}R.push(o.join())})();`, k, k)
	default:
		return fmt.Sprintf(`(function(){var log=[];class K{static #n=%d;static{log.push("sb"+K.#n)}#a=(log.push("fa"),1);b=(log.push("fb"),this.#a+1);static s=K.#n+1;#g(){return 7}get #acc(){return this.#g()+1}r(){return this.#acc}}var k=new K();log.push(k.b,K.s,k.r());R.push(log.join())})();`, k)
	}
}

func snipEval(r *vh.Rng) string {
	k := r.Intn(100)
	switch r.Intn(5) {
	case 0:
		return fmt.Sprintf(`(function(){function f(a){var x=1;eval("var y=a+x;x=5");return x+y}function h(){eval("var z=3");var d=delete z;return d+":"+typeof z}R.push([f(%d),h(),typeof y].join())})();`, k)
	case 1:
		return fmt.Sprintf(`(function(){function f(c,p){var q=%d;if(c)eval("var q=p");return q}function g(){"use strict";var s=1;eval("var s2=2;s=s+s2");return s+typeof s2}R.push([f(0,1),f(1,2),g()].join())})();`, k)
	case 2:
		return fmt.Sprintf(`(function(){var ar=(a)=>{eval("var w=a*2");return w};function inner(){var fs=[];for(let i=0;i<3;i++){eval("var e"+i+"=i");fs.push(()=>i)}return e0+e1+e2+fs[1]()}var ge=(0,eval)("%d+1");R.push([ar(%d),inner(),ge].join())})();`, k, k)
	case 3:
		return fmt.Sprintf(`(function(){function f(){var r=[];{let b=%d;eval("var fromEval=b+1;function fe(){return b}");r.push(fromEval,fe())}r.push(typeof b);return r.join()}R.push(f()+f())})();`, k)
	default:
		return fmt.Sprintf(`(function(){function f(x){return eval("(function(){return x+"+%d+"})")()}function g(){try{eval("let l=1;var l2=2;throw l")}catch(e){return e+typeof l2}}R.push([f(1),g(),f("s")].join())})();`, k)
	}
}

func snipWith(r *vh.Rng) string {
	k := r.Intn(100)
	switch r.Intn(3) {
	case 0:
		return fmt.Sprintf(`(function(){var q=%d;function g(o){with(o){return p+q}}R.push([g({p:1}),g({p:2,q:3}),(function(){var o={u:1};with(o){var u=5;var nw=6}return o.u+":"+u+":"+nw})()].join())})();`, k)
	case 1:
		return fmt.Sprintf(`(function(){var o={a:%d,[Symbol.unscopables]:{b:true},b:2},b=9;with(o){var f=function(){return a+b};a=a+1}R.push(f()+":"+o.a)})();`, k)
	default:
		return fmt.Sprintf(`(function(){function f(o){with(o){eval("var viaEval=x+1");{let x=%d;var cl=()=>x}}return viaEval+cl()+typeof x}R.push(f({x:1}))})();`, k)
	}
}

func snipFold(r *vh.Rng) string {
	a, b := r.Intn(1000), r.Intn(50)+1
	exprs := []string{
		fmt.Sprintf(`(%d+%d*3)+"x"+(%d>%d)`, a, b, a, b),
		fmt.Sprintf(`("a"+"b"+%d).length+(2**10)+(%d%%%d)`, a, a, b),
		fmt.Sprintf(`typeof %d+typeof "s"+typeof void 0+(%d|%d)+(%d>>>1)+(~%d)`, a, a, b, a, b),
		fmt.Sprintf(`(true?"t%d":"f")+(null??%d)+(1<2===true)+(!%d)`, a, b, a),
		fmt.Sprintf(`[%d/%d,-(%d),+"%d",1e21+1,0.1+0.2,-0,"%d"*1].map(String).join()`, a, b, a, a, b),
		fmt.Sprintf(`"\u00e4"+"%d"+'\ud83d\ude00'.length+("x">"\u00e4")`, a),
	}
	return fmt.Sprintf(`R.push(String(%s));`, exprs[r.Intn(len(exprs))])
}

func snipClosure(r *vh.Rng) string {
	k := r.Intn(20) + 1
	switch r.Intn(3) {
	case 0:
		return fmt.Sprintf(`(function(){function mk(s){var c=s;return {inc:function(){return ++c},get:()=>c}}var a=mk(%d),b=mk(0);a.inc();a.inc();b.inc();var fs=[];for(let i=0;i<3;i++)fs.push(function(){return i*%d});R.push([a.get(),b.get(),fs.map(function(f){return f()})].join())})();`, k, k)
	case 1:
		return fmt.Sprintf(`(function(){function f(a,b=a+%d,...rest){var {x,y=[]}=rest[0]||{};var [z=3]=y;return [a,b,x,z,arguments.length].join("/")}R.push(f(1)+";"+f(1,2,{x:4,y:[5]})+";"+[...new Set([1,1,%d])].length)})();`, k, k)
	default:
		return fmt.Sprintf(`(function(){var o=[];outer:for(var i=0;i<4;i++){for(var j=0;j<4;j++){if(j==2)continue outer;if(i==3)break outer;try{o.push(i*%d+j)}finally{o.push("f")}}}var m=new Map([["k",1]]);m.set(NaN,2);R.push(o.join("")+m.get(NaN)+[3,1,2].sort().join(""))})();`, k)
	}
}

func snipGen(r *vh.Rng) string {
	k := r.Intn(9) + 1
	switch r.Intn(3) {
	case 0:
		return fmt.Sprintf(`(function(){function* g(n){for(let i=0;i<n;i++){var x=yield i*%d;if(x)n--}return "d"}var it=g(4),o=[],r;while(!(r=it.next(o.length%%2)).done)o.push(r.value);o.push(r.value);R.push(o.join())})();`, k)
	case 1:
		return fmt.Sprintf(`(function(){function* inner(){try{yield 1;yield 2}finally{log.push("fin")}}function* outer(){var r=yield* inner();yield %d}var log=[],it=outer();log.push(it.next().value);log.push(JSON.stringify(it.return(9)));log.push(it.next().done);R.push(log.join())})();`, k)
	default:
		return fmt.Sprintf(`(function(){var log=[];async function a(x){log.push("s"+x);var v=await x;log.push("r"+v);return v+%d}a(1).then(function(v){log.push("t"+v)});log.push("sync");R.push(log.join()+[...(function*(){yield* [1,2];yield* "ab"})()].join(""))})();`, k)
	}
}

func snipStack(r *vh.Rng) string {
	switch r.Intn(3) {
	case 0:
		return `(function(){function thrower(){null.x}try{thrower()}catch(e){R.push(e.name+":"+e.stack.split("\n").length+":"+/thrower/.test(e.stack))}})();`
	case 1:
		return `(function(){function a(){return new Error("m").stack}var s=a();R.push(String(s.split("\n").length)+(s.indexOf("case.js")>=0))})();`
	default:
		return `(function(){function rec(n){return n?rec(n-1):undefinedName}try{rec(5)}catch(e){R.push(e.name+e.stack.split("\n").length)}})();`
	}
}

func snipMisc(r *vh.Rng) string {
	k := r.Intn(100)
	switch r.Intn(3) {
	case 0:
		return fmt.Sprintf(`(function(){var sy=Symbol("d%d"),o={[sy]:1,a:{b:[1,2,{c:%d}]}};R.push(JSON.stringify(o)+String(sy.description)+Object.getOwnPropertySymbols(o).length+JSON.parse('{"x":[1,{"y":%d}]}').x[1].y)})();`, k, k, k)
	case 1:
		return fmt.Sprintf(`(function(){var a=[];a[%d]=1;a.length=3;var ta=new Uint8Array([1,2,%d]);R.push([a.length,ta[2],[1,2,3].reduce(function(x,y){return x+y},%d),"%d".padStart(5,"0"),(%d).toString(2)].join())})();`, k+5, k, k, k, k)
	default:
		return fmt.Sprintf(`(function(){var p=new Proxy({},{get:function(t,k){return typeof k==="string"?k+%d:undefined}});var d=new Date(0);R.push(p.foo+d.getTime()+Number("%d.5")+parseInt("%dpx")+[..."h\u00e9"].length)})();`, k, k, k)
	}
}

var featNames = []string{"regex", "tmpl", "tmplredef", "class", "eval", "with", "fold", "closure", "gen", "stack", "misc"}

func snippet(r *vh.Rng, f string) string {
	switch f {
	case "regex":
		return snipRegex(r)
	case "tmpl":
		return snipTmpl(r, false)
	case "tmplredef":
		return snipTmpl(r, true)
	case "class":
		return snipClass(r)
	case "eval":
		return snipEval(r)
	case "with":
		return snipWith(r)
	case "fold":
		return snipFold(r)
	case "closure":
		return snipClosure(r)
	case "gen":
		return snipGen(r)
	case "stack":
		return snipStack(r)
	}
	return snipMisc(r)
}

func genProg(r *vh.Rng) Case {
	n := 1 + r.Intn(4)
	var feat []string
	var sb strings.Builder
	sb.WriteString("var R=[];\n")
	var cg []string
	pre := false
	if r.Chance(40) {
		// top-level var/function declarations observed BEFORE their initialisation (hoisting), and runtimes whose
		// host-provided global object already has some of those names
		feat = append(feat, "globals")
		k := r.Intn(50)
		sb.WriteString(fmt.Sprintf("var H=[];\n[function(){return va},function(){return vb},function(){return vc},function(){return typeof fa},function(){return vd}].forEach(function(f){try{H.push(String(f()))}catch(e){H.push(e.name)}});\nvar va=%d;\nvar vb=va+1, vc=\"c\";\nfunction fa(){return va}\nvar vd=fa();\nR.push(H.join()+\"/\"+[va,vb,vc,vd].join());\n", k))
		names := []string{"va", "vb", "vc", "vd", "fa", "H", "unrelated"}
		for _, n := range names {
			if r.Chance(35) {
				cg = append(cg, n)
			}
		}
		if len(cg) == 0 {
			cg = []string{names[r.Intn(4)]}
		}
		pre = r.Chance(60)
	}
	if r.Chance(30) {
		sb.WriteString("function topf(a){return a+1}\nvar topv=topf(1);\n")
	}
	for i := 0; i < n; i++ {
		f := featNames[r.Pick(18, 14, 5, 10, 12, 7, 6, 8, 8, 5, 7)]
		feat = append(feat, f)
		sb.WriteString(snippet(r, f))
		sb.WriteString("\n")
	}
	sb.WriteString("R.join(\"\\n\")\n")
	gs := []int{2, 3, 4, 8, 8, 8, 12, 16}
	return Case{Kind: "prog", G: gs[r.Intn(len(gs))], Reps: 1 + r.Intn(2), Src: sb.String(), Feat: feat, Cg: cg, Pre: pre}
}

// ------------------------------------------------------------------------------------------------
// shared values

var longStrs = []string{
	"héllo wörld, grüße aus Köln 0123456789",
	"plain ascii string longer than sixteen bytes 0123",
	"emoji \U0001F600 and \U0001F680 in a long go string",
	"12345678901234567",
	"         padded text with spaces         ",
	"日本語のテキストがここにあります、長い文字列",
	"mixed ÀÉÎÕÜ abcdefghijklmnopqrstuvwxyz",
}

func genVals(r *vh.Rng) Case {
	var vs []ValSpec
	nImp := 1 + r.Intn(3)
	for i := 0; i < nImp; i++ {
		s := longStrs[r.Intn(len(longStrs))]
		if r.Chance(40) {
			s = s + fmt.Sprintf(" #%d", r.Intn(1000))
		}
		vs = append(vs, ValSpec{T: "imp", S: s})
	}
	n := 2 + r.Intn(6)
	for i := 0; i < n; i++ {
		switch r.Pick(3, 2, 2, 1, 1, 2, 1, 1, 1) {
		case 0:
			vs = append(vs, ValSpec{T: "concat", A: r.Intn(len(vs)), B: r.Intn(len(vs))})
		case 1:
			vs = append(vs, ValSpec{T: "substr", A: r.Intn(len(vs)), From: r.Intn(5), To: 5 + r.Intn(20)})
		case 2:
			vs = append(vs, ValSpec{T: "sym", S: fmt.Sprintf("desc%d", r.Intn(10))})
		case 3:
			vs = append(vs, ValSpec{T: "int", N: int64(r.Intn(100000)) - 500})
		case 4:
			vs = append(vs, ValSpec{T: "float", F: float64(r.Intn(1000)) + 0.25})
		case 5:
			u := []uint16{0x68, 0xe9, 0xd83d, 0xde00, 0x41, uint16(0x30 + r.Intn(10))}
			if r.Chance(30) {
				u = append(u, 0xd800) // lone surrogate
			}
			vs = append(vs, ValSpec{T: "utf16", U: u})
		case 6:
			vs = append(vs, ValSpec{T: "short", S: []string{"abc", "ü", "", "x1"}[r.Intn(4)]})
		case 7:
			vs = append(vs, ValSpec{T: "bool"})
		default:
			vs = append(vs, ValSpec{T: "imp", S: longStrs[r.Intn(len(longStrs))]})
		}
	}
	gs := []int{2, 4, 8, 8, 16}
	return Case{Kind: "vals", G: gs[r.Intn(len(gs))], Reps: 1, Vals: vs}
}

const opsSrc = `(function(vals){
  var out=[];
  for (var i=0;i<vals.length;i++){
    var v=vals[i]; var r=[typeof v];
    try {
    if (typeof v==="string"){
      r.push(v.length, v.charCodeAt(0), v.charAt(v.length-1), (v+"!").length, ("<"+v).length, v<"m", v==="x", v==v,
             v.substring(1,5), v.indexOf("a"), v.lastIndexOf("e"), v.toUpperCase().length, v.toLowerCase().length, v.slice(-3), +v!==+v, v.trim().length);
      var m=new Map(); m.set(v,i); r.push(m.get(v), m.has(v+""), new Set([v,v+""]).size);
      var o={}; o[v]=i; r.push(Object.keys(o)[0]===v, o[v]);
      r.push(JSON.stringify(v).length, v.split("").length, /\d+/.test(v), v.replace(/[a-z]/,"_").length, Array.from(v).length, v.codePointAt(1));
      for (var j=0;j<vals.length;j++){ if (typeof vals[j]==="string") r.push(v===vals[j]?1:0, (v+vals[j]).length, v<vals[j]?1:0, v==vals[j]?1:0); }
      r.push(encodeURIComponent(v).length);
    } else if (typeof v==="symbol"){
      var o2={}; o2[v]=i; r.push(o2[v], Object.getOwnPropertySymbols(o2).length, v.description, v.toString(), Object(v)==v, new Map([[v,1]]).get(v), v===vals[i]);
    } else {
      r.push(String(v), v+1, v===vals[i], new Set([v]).has(v), Object.is(v,vals[i]), JSON.stringify(v));
    }
    } catch(e) { r.push("E:"+e.name) }
    out.push(r.join(","));
  }
  return out.join(";");
})`

var opsPrg = goja.MustCompile("ops.js", opsSrc, false)

func buildVals(specs []ValSpec) ([]goja.Value, error) {
	p := goja.New()
	catV, err := p.RunString("(function(a,b){return a+b})")
	if err != nil {
		return nil, err
	}
	cat, _ := goja.AssertFunction(catV)
	subV, _ := p.RunString("(function(a,f,t){return String(a).substring(f,t)})")
	sub, _ := goja.AssertFunction(subV)
	var vals []goja.Value
	for _, s := range specs {
		var v goja.Value
		switch s.T {
		case "imp", "short":
			v = p.ToValue(s.S)
		case "concat":
			if s.A >= len(vals) || s.B >= len(vals) {
				v = goja.Undefined()
				break
			}
			if isSym(vals[s.A]) || isSym(vals[s.B]) {
				v = p.ToValue("symbol operand skipped")
				break
			}
			v, err = cat(goja.Undefined(), vals[s.A], vals[s.B])
			if err != nil {
				return nil, err
			}
		case "substr":
			if s.A >= len(vals) {
				v = goja.Undefined()
				break
			}
			if isSym(vals[s.A]) {
				v = p.ToValue("symbol operand skipped")
				break
			}
			v, err = sub(goja.Undefined(), vals[s.A], p.ToValue(s.From), p.ToValue(s.To))
			if err != nil {
				return nil, err
			}
		case "sym":
			v = goja.NewSymbol(s.S)
		case "int":
			v = p.ToValue(s.N)
		case "float":
			v = p.ToValue(s.F)
		case "utf16":
			v = goja.StringFromUTF16(s.U)
		case "bool":
			v = p.ToValue(true)
		default:
			v = goja.Undefined()
		}
		if _, isObj := v.(*goja.Object); isObj {
			v = goja.Undefined() // only primitives are shareable
		}
		vals = append(vals, v)
	}
	return vals, nil
}

func isSym(v goja.Value) bool { _, ok := v.(*goja.Symbol); return ok }

func goOps(vals []goja.Value) string {
	var sb strings.Builder
	for i, v := range vals {
		fmt.Fprintf(&sb, "%v|%d|%v|%v", v.Export(), len(v.String()), v.ToBoolean(), v.ExportType())
		if _, isSym := v.(*goja.Symbol); !isSym {
			fmt.Fprintf(&sb, "|%d|%v", v.ToInteger(), v.ToNumber().Export())
		}
		if s, ok := v.(goja.String); ok {
			fmt.Fprintf(&sb, "|%d", s.Length())
			if s.Length() > 0 {
				fmt.Fprintf(&sb, "|%d", s.CharAt(0))
			}
			fmt.Fprintf(&sb, "|%d", s.Substring(0, min(2, s.Length())).Length())
			rd := s.Reader()
			rn, _, _ := rd.ReadRune()
			fmt.Fprintf(&sb, "|%d", rn)
		}
		for j, w := range vals {
			if j > i+2 {
				break
			}
			fmt.Fprintf(&sb, "|%v%v%v", v.SameAs(w), v.StrictEquals(w), v.Equals(w))
			if s, ok := v.(goja.String); ok {
				if t, ok := w.(goja.String); ok {
					fmt.Fprintf(&sb, "%d/%d", s.CompareTo(t), s.Concat(t).Length())
				}
			}
		}
		sb.WriteString(";")
	}
	return sb.String()
}

func useVals(vals []goja.Value, goFirst bool, start <-chan struct{}) string {
	vm := goja.New()
	fnV, err := vm.RunProgram(opsPrg)
	if err != nil {
		return "err:" + errClass(err)
	}
	fn, _ := goja.AssertFunction(fnV)
	if start != nil {
		<-start
	}
	arr := make([]interface{}, len(vals))
	for i, v := range vals {
		arr[i] = v
	}
	res := ""
	if goFirst {
		res = goOps(vals)
	}
	if err := vm.Set("shared0", vals[0]); err != nil {
		return "err:" + errClass(err)
	}
	v, err := fn(goja.Undefined(), vm.NewArray(arr...))
	if err != nil {
		res += "err:" + errClass(err)
	} else {
		res += v.String()
	}
	if !goFirst {
		// not concatenated in a different order: the result must not depend on goFirst
		res = goOps(vals) + res
	}
	return res
}

// ------------------------------------------------------------------------------------------------
// running

func errClass(err error) string {
	switch e := err.(type) {
	case *goja.Exception:
		if o, ok := e.Value().(*goja.Object); ok {
			if n := o.Get("name"); n != nil {
				switch n.String() {
				case "TypeError", "RangeError", "SyntaxError", "ReferenceError":
					return n.String()
				}
			}
		}
		return "Thrown"
	case *goja.InterruptedError:
		return "Interrupted"
	case *goja.StackOverflowError:
		return "StackOverflow"
	case *goja.CompilerSyntaxError:
		return "SyntaxError"
	case *goja.CompilerReferenceError:
		return "ReferenceError"
	}
	return "GoError"
}

func canon(v goja.Value, err error) string {
	if err != nil {
		return "err:" + errClass(err)
	}
	if v == nil {
		return "nil"
	}
	if s, ok := v.Export().(string); ok {
		return "s:" + s
	}
	return "x:" + v.String()
}

func fp(s string) uint64 {
	h := fnv.New64a()
	h.Write([]byte(s))
	return h.Sum64()
}

// concurrently runs f(g) for g in 0..n-1 behind a start barrier; a panic becomes the result
func concurrently(n int, f func(g int, start <-chan struct{}) string) []string {
	res := make([]string, n)
	start := make(chan struct{})
	var wg sync.WaitGroup
	for g := 0; g < n; g++ {
		wg.Add(1)
		go func(g int) {
			defer wg.Done()
			defer func() {
				if x := recover(); x != nil {
					res[g] = fmt.Sprintf("HostPanic:%v", x)
				}
			}()
			res[g] = f(g, start)
		}(g)
	}
	close(start)
	wg.Wait()
	return res
}

// a Runtime whose global object is a host-provided plain object: the built-ins are copied over and the given
// properties already exist
func customGlobalRuntime(names []string) *goja.Runtime {
	vm := goja.New()
	old := vm.GlobalObject()
	g := vm.NewObject()
	for _, k := range old.GetOwnPropertyNames() {
		g.Set(k, old.Get(k))
	}
	for i, n := range names {
		g.Set(n, 5+i)
	}
	vm.SetGlobalObject(g)
	return vm
}

func runProgOnce(p *goja.Program, reps int, start <-chan struct{}) string {
	return runProgIn(goja.New(), p, reps, start)
}

func runProgIn(vm *goja.Runtime, p *goja.Program, reps int, start <-chan struct{}) string {
	if start != nil {
		<-start
	}
	var out []string
	for i := 0; i < reps; i++ {
		out = append(out, canon(vm.RunProgram(p)))
	}
	return strings.Join(out, "\x00")
}

func short(s string) string {
	if len(s) > 300 {
		return s[:300] + "..."
	}
	return s
}

func runCase(c Case) vh.Record {
	raw := vh.MustJSON(c)
	switch c.Kind {
	case "prog":
		ops := coqOps(c.Feat)
		tags := append([]string{"prog", fmt.Sprintf("g=%d", c.G)}, c.Feat...)
		shared, err := goja.Compile("case.js", c.Src, false)
		if err != nil {
			return vh.Record{Case: raw, Coq: "CFail", Obs: "compile error: " + err.Error(), Tags: append(tags, "compile_error")}
		}
		custom := func(g int) bool { return len(c.Cg) > 0 && g%3 == 0 }
		preRes := ""
		if c.Pre && len(c.Cg) > 0 {
			preRes = runProgIn(customGlobalRuntime(c.Cg), shared, c.Reps, nil)
			tags = append(tags, "pre-custom-global")
		}
		runs := concurrently(c.G, func(g int, start <-chan struct{}) string {
			if custom(g) {
				return runProgIn(customGlobalRuntime(c.Cg), shared, c.Reps, start)
			}
			return runProgOnce(shared, c.Reps, start)
		})
		post := runProgOnce(shared, c.Reps, nil) // a fresh runtime after everything else has used the Program
		iso, _ := goja.Compile("case.js", c.Src, false)
		seq := runProgOnce(iso, c.Reps, nil)
		seqCustom := ""
		if len(c.Cg) > 0 {
			isoC, _ := goja.Compile("case.js", c.Src, false)
			seqCustom = runProgIn(customGlobalRuntime(c.Cg), isoC, c.Reps, nil)
			tags = append(tags, "custom-global")
		}
		var rs, alt []string
		eq := true
		obs := ""
		cmp := func(who, got, want string, isAlt bool) {
			if isAlt {
				alt = append(alt, fmt.Sprintf("(%s, %s)", vh.CoqN(fp(want)), vh.CoqN(fp(got))))
			} else {
				rs = append(rs, vh.CoqN(fp(got)))
			}
			if got != want && eq {
				eq = false
				obs = fmt.Sprintf(" | %s: %s (isolated: %s)", who, short(got), short(want))
			}
		}
		if preRes != "" {
			cmp("custom-global runtime before the concurrent phase", preRes, seqCustom, true)
		}
		for g, r := range runs {
			if custom(g) {
				cmp(fmt.Sprintf("goroutine %d (custom global)", g), r, seqCustom, true)
			} else {
				cmp(fmt.Sprintf("goroutine %d", g), r, seq, false)
			}
		}
		cmp("fresh runtime afterwards", post, seq, false)
		obs = fmt.Sprintf("eq=%v seq=%s", eq, short(seq)) + obs
		if !eq {
			tags = append(tags, "neq")
		}
		if strings.HasPrefix(seq, "err:") {
			tags = append(tags, "result:"+strings.SplitN(seq, "\x00", 2)[0])
		}
		return vh.Record{Case: raw, Coq: fmt.Sprintf("CProg %s %s %s %s", ops, vh.CoqN(fp(seq)), vh.CoqList(rs), vh.CoqList(alt)),
			Obs: obs, Tags: tags, Nontrivial: c.G >= 2 && !strings.HasPrefix(seq, "err:")}
	case "vals":
		tags := []string{"vals", fmt.Sprintf("g=%d", c.G)}
		vals, err := buildVals(c.Vals)
		if err != nil || len(vals) == 0 {
			return vh.Record{Case: raw, Coq: "CFail", Obs: fmt.Sprintf("cannot build values: %v", err), Tags: append(tags, "build_error")}
		}
		var acts []string
		unscanned := false
		seenRepr := map[string]bool{}
		for _, v := range vals {
			rp := goja.VerifRepr(v)
			if i := strings.IndexByte(rp, ':'); i > 0 && !strings.HasPrefix(rp, "imported") {
				rp = rp[:i]
			}
			if seenRepr[rp] {
				continue
			}
			seenRepr[rp] = true
			tags = append(tags, "repr:"+rp)
			pv := ""
			switch rp {
			case "ascii":
				pv = "VAscii 1"
			case "unicode":
				pv = "VUnicode 2"
			case "sym":
				pv = "VSym 3"
			case "int":
				pv = "VInt"
			case "float":
				pv = "VFloat"
			case "bool":
				pv = "VBool"
			case "undefined", "null":
				pv = "VNullUndef"
			case "imported:unscanned":
				unscanned = true
				acts = append(acts, "AImp 1 (IEnsureThenU OnceSlowScan)", "AImp 1 (IEnsureThenU OnceSlowNoop)", "AImp 1 (IStrictEqAscii false)",
					"AImp 1 (IConcatImported 2 false false true OnceFast)", "AImp 1 (IConcatImported 2 false true false OnceSlowScan)",
					"AImp 1 (IStrictEqImported 2 false OnceSlowScan OnceFast)", "AImp 1 (IReader false)", "AImp 1 IReadSOnly", "AImp 1 (IEquals false OnceSlowNoop)")
			case "imported:scanned-unicode", "imported:scanned-ascii":
				acts = append(acts, "AImp 4 (IEnsureThenU OnceFast)", "AImp 4 (IStrictEqAscii true)", "AImp 4 (IConcatOther true OnceFast)",
					"AImp 4 (IReader true)", "AImp 4 (IStrictEqUnicode OnceFast)")
			}
			if pv != "" {
				for _, o := range []string{"PLength", "PCharAt", "PConcat", "PCompare", "PEquals", "PHash", "PExport", "PAsKey"} {
					acts = append(acts, fmt.Sprintf("APrim (%s) %s", pv, o))
				}
			}
		}
		runs := concurrently(c.G, func(g int, start <-chan struct{}) string { return useVals(vals, g%2 == 1, start) })
		isoVals, _ := buildVals(c.Vals)
		seq := useVals(isoVals, false, nil)
		var rs []string
		eq := true
		for _, r := range runs {
			rs = append(rs, vh.CoqN(fp(r)))
			if r != seq {
				eq = false
			}
		}
		obs := fmt.Sprintf("eq=%v seq=%s", eq, short(seq))
		if !eq {
			tags = append(tags, "neq")
			for g, r := range runs {
				if r != seq {
					obs += fmt.Sprintf(" | goroutine %d: %s", g, short(r))
					break
				}
			}
		}
		return vh.Record{Case: raw, Coq: fmt.Sprintf("CVals %s %s %s", vh.CoqList(acts), vh.CoqN(fp(seq)), vh.CoqList(rs)),
			Obs: obs, Tags: tags, Nontrivial: unscanned || len(vals) > 2}
	case "xrt":
		return runXrt(c, raw)
	}
	return vh.Record{Case: raw, Coq: "CFail", Obs: "unknown case kind", Tags: []string{"bad_case"}}
}

func runXrt(c Case, raw json.RawMessage) vh.Record {
	a, b := goja.New(), goja.New()
	var val interface{}
	g := "GObject 0"
	mk := func(vm *goja.Runtime, src string) goja.Value {
		v, err := vm.RunString(src)
		if err != nil {
			panic(err)
		}
		return v
	}
	switch c.Xrt.Obj {
	case "object":
		val = mk(a, "({x:1})")
	case "array":
		val = mk(a, "[1,2,3]")
	case "func":
		val = mk(a, "(function(){return 1})")
	case "date":
		val = mk(a, "new Date(0)")
	case "proxy":
		val = mk(a, "new Proxy({}, {})")
	case "own":
		val = mk(b, "({x:1})")
		g = "GObject 1"
	case "prim":
		val = mk(a, "'a primitive string from runtime A'")
		g = "GPrim (VAscii 0)"
	case "sym":
		val = mk(a, "Symbol('s')")
		g = "GPrim (VSym 0)"
	case "nil":
		val = (*goja.Object)(nil)
		g = "GNilObject"
	default:
		val = mk(a, "({})")
	}
	code := 3
	detail := ""
	func() {
		defer func() {
			if x := recover(); x != nil {
				// a TypeError thrown as a Go panic carrying a goja value is what ToValue documents
				if ex, ok := x.(*goja.Exception); ok && errClass(ex) == "TypeError" {
					code = 2
					return
				}
				if o, ok := x.(*goja.Object); ok {
					if n := o.Get("name"); n != nil && n.String() == "TypeError" {
						code = 2
						return
					}
				}
				code = 3
				detail = fmt.Sprintf("panic: %v", x)
			}
		}()
		var err error
		var got goja.Value
		switch c.Xrt.Path {
		case "set":
			err = b.Set("x", val)
			if err == nil {
				got = b.Get("x")
			}
		case "tovalue":
			got = b.ToValue(val)
		case "setfield":
			o := b.NewObject()
			err = o.Set("f", val)
			if err == nil {
				got = o.Get("f")
			}
		case "newarray":
			arr := b.NewArray(val)
			got = arr.Get("0")
		case "goret":
			// a reflect-wrapped Go function of runtime B returning the value, for every declared result type
			var fn interface{}
			v, _ := val.(goja.Value)
			o, _ := val.(*goja.Object)
			switch c.Xrt.Ret {
			case "value":
				fn = func() goja.Value { return v }
			case "valueerr":
				fn = func() (goja.Value, error) { return v, nil }
			case "object":
				fn = func() *goja.Object { return o }
			case "objecterr":
				fn = func() (*goja.Object, error) { return o, nil }
			case "multi":
				fn = func() (goja.Value, int) { return v, 1 }
			default:
				fn = func() interface{} { return val }
			}
			if err = b.Set("gofn", fn); err == nil {
				got, err = b.RunString("var r = gofn(); Array.isArray(r) && r.length === 2 && r[1] === 1 ? r[0] : r")
			}
		case "callthis", "rtnew":
			// the value as 'this' of a runtime-B Callable / as an argument of Runtime.New
			var fv goja.Value
			fv, err = b.RunString("(function(o){ this.k = typeof o; return typeof this })")
			if err == nil {
				v, _ := val.(goja.Value)
				if v == nil {
					v = b.ToValue(val)
				}
				if c.Xrt.Path == "callthis" {
					fn, _ := goja.AssertFunction(fv)
					got, err = fn(v)
				} else {
					var o *goja.Object
					o, err = b.New(fv, v)
					if err == nil {
						got = o.Get("k")
					}
				}
			}
		case "callarg":
			// the value handed directly to a Callable of runtime B (no conversion on the way)
			var fv goja.Value
			fv, err = b.RunString("(function(o){ return typeof o + ':' + (o === null ? 0 : Object.keys(Object(o)).length) })") // B really uses the value
			if err == nil {
				fn, _ := goja.AssertFunction(fv)
				v, _ := val.(goja.Value)
				if v == nil {
					v = b.ToValue(val)
				}
				got, err = fn(goja.Undefined(), v)
			}
		default:
			got = b.ToValue(val)
		}
		if err != nil {
			if errClass(err) == "TypeError" {
				code = 2
			} else {
				code = 3
				detail = "error: " + err.Error()
			}
			return
		}
		if got == nil || goja.IsNull(got) {
			code = 1
			return
		}
		// accepted: the value must be usable in B
		b.Set("y", got)
		if _, err := b.RunString("typeof y + String(y === y)"); err != nil {
			code = 3
			detail = "unusable: " + err.Error()
			return
		}
		code = 0
	}()
	names := []string{"accepted", "null", "TypeError", "other"}
	return vh.Record{Case: raw, Coq: fmt.Sprintf("CXrt %s 1 (%s) %s", vh.CoqBool(c.Xrt.Path == "callarg" || c.Xrt.Path == "callthis" || c.Xrt.Path == "rtnew"), g, vh.CoqN(uint64(code))),
		Obs: names[code] + " " + detail, Tags: []string{"xrt", "xrt:" + c.Xrt.Obj, "path:" + c.Xrt.Path + c.Xrt.Ret}, Nontrivial: g == "GObject 0"}
}

func genXrt(r *vh.Rng) Case {
	objs := []string{"object", "array", "func", "date", "proxy", "own", "prim", "sym", "nil"}
	paths := []string{"set", "tovalue", "setfield", "newarray", "goret", "callarg", "callthis", "rtnew"}
	path := paths[r.Intn(len(paths))]
	if r.Chance(35) {
		path = "goret"
	}
	c := Case{Kind: "xrt", Xrt: &XrtSpec{Obj: objs[r.Intn(len(objs))], Path: path}}
	if c.Xrt.Path == "goret" {
		c.Xrt.Ret = []string{"iface", "value", "valueerr", "object", "objecterr", "multi"}[r.Intn(6)]
		isObj := map[string]bool{"object": true, "array": true, "func": true, "date": true, "proxy": true, "own": true, "nil": true}
		if (c.Xrt.Ret == "object" || c.Xrt.Ret == "objecterr") && !isObj[c.Xrt.Obj] {
			c.Xrt.Obj = "object"
		}
		if (c.Xrt.Ret == "value" || c.Xrt.Ret == "valueerr" || c.Xrt.Ret == "multi") && c.Xrt.Obj == "nil" {
			c.Xrt.Obj = "array"
		}
	}
	if (c.Xrt.Path == "callarg" || c.Xrt.Path == "callthis" || c.Xrt.Path == "rtnew") && c.Xrt.Obj == "nil" {
		c.Xrt.Obj = "object" // a nil *Object is not a Value that can be passed directly
	}
	return c
}

func genCase(r *vh.Rng) Case {
	switch r.Pick(44, 42, 14) {
	case 0:
		return genProg(r)
	case 1:
		return genVals(r)
	}
	return genXrt(r)
}

func main() {
	m := vh.ParseArgs()
	w := vh.NewWriter(m.Out)
	defer w.Close()
	race := m.Args["mode"] == "race"
	run := func(i int, c Case) {
		if race {
			fmt.Fprintf(os.Stderr, "@@CASE %d %s\n", i, c.Kind)
		}
		vh.Guard(w, vh.MustJSON(c), "CFail", 60, func() vh.Record { return runCase(c) })
		if race {
			fmt.Fprintf(os.Stderr, "@@END %d\n", i)
		}
	}
	switch m.Cmd {
	case "gen":
		r := vh.NewRng(m.Seed)
		for i := 0; i < m.N; i++ {
			run(i, genCase(r.Fork()))
		}
	case "replay":
		for i, raw := range vh.ReadCases(m.In) {
			var c Case
			if err := json.Unmarshal(raw, &c); err != nil {
				w.Put(vh.Record{Case: raw, Coq: "CFail", Obs: "bad case json: " + err.Error(), Tags: []string{"bad_case"}})
				continue
			}
			run(i, c)
		}
	}
}
