// C15 correspondence harness: deterministic interrupt injection at every probe point of generated
// programs, plus (mode "async") interrupts from a second goroutine for the race-detector stage.
package main

import (
	"encoding/json"
	"errors"
	"fmt"
	"io"
	"os"
	"strings"
	"time"

	"github.com/dop251/goja"
	"verifharness/vh"
)

// Node is one node of the abstract program (see coq/C15/Model.v: instr).
type Node struct {
	T   string   `json:"t"`             // ev probe throw loop try call nat forof gen async job
	Id  int      `json:"id,omitempty"`  // serial (event ids derive from it)
	N   int      `json:"n,omitempty"`   // loop / forEach / for-of count
	K   string   `json:"k,omitempty"`   // nat: sort foreach getter gocall gocallsw nested nestedsw
	B   []Node   `json:"b,omitempty"`   // body
	C   []Node   `json:"c,omitempty"`   // catch body
	F   []Node   `json:"f,omitempty"`   // finally body / async post
	HC  bool     `json:"hc,omitempty"`  // has catch
	HF  bool     `json:"hf,omitempty"`  // has finally
	Ret bool     `json:"ret,omitempty"` // for-of: the iterator has a return()
	S   [][]Node `json:"s,omitempty"`   // gen: segments
	In  *Node    `json:"in,omitempty"`  // async: the async function whose promise is awaited (instead of a plain value)
}

type Case struct {
	Entry  string `json:"entry"` // run | call
	Mode   int    `json:"mode"`  // 0 probe-k, 1 idle interrupt, 2 idle interrupt + clear
	K      int    `json:"k"`
	Clr    bool   `json:"clr,omitempty"`
	Strict bool   `json:"strict,omitempty"`
	Prof   bool   `json:"prof,omitempty"` // run the call while a profile is being collected (vm.runWithProfiler loop)
	Ops    []Node `json:"ops"`
}

// event ids: serial*8 + class (0 plain, 1 catch, 2 finally, 3 iterator return, 4 job); 7 = probe
func evid(serial, class int) int { return serial*8 + class }

// ---------------------------------------------------------------------------------------------
// rendering to JavaScript

type renderer struct {
	srcs []string // nested RunString sources
}

func (r *renderer) js(ns []Node) string {
	var sb strings.Builder
	for _, n := range ns {
		sb.WriteString(r.jsNode(n))
		sb.WriteByte('\n')
	}
	return sb.String()
}

// an async function called at once; it awaits either a plain value or the promise of the next function of the chain
func (r *renderer) jsAsync(n Node) string {
	awaited := "0"
	if n.In != nil {
		awaited = r.jsAsync(*n.In)
	}
	return "(async function(){\n" + r.js(n.B) + "await " + awaited + ";\n" + r.js(n.F) + "})()"
}

func (r *renderer) jsNode(n Node) string {
	switch n.T {
	case "ev":
		return fmt.Sprintf("log(%d);", evid(n.Id, 0))
	case "probe":
		return "probe();"
	case "pthrow":
		return "pthrow();"
	case "throw":
		return `throw new Error("t");`
	case "loop":
		return fmt.Sprintf("for (var i%d=0;i%d<%d;i%d++){\n%s}", n.Id, n.Id, n.N, n.Id, r.js(n.B))
	case "try":
		s := "try {\n" + r.js(n.B) + "}"
		if n.HC {
			s += fmt.Sprintf(" catch (e) {\nlog(%d);\n%s}", evid(n.Id, 1), r.js(n.C))
		}
		if n.HF {
			s += fmt.Sprintf(" finally {\nlog(%d);\n%s}", evid(n.Id, 2), r.js(n.F))
		}
		return s
	case "call":
		return "(function(){\n" + r.js(n.B) + "})();"
	case "nat":
		switch n.K {
		case "sort":
			return "[2,1].sort(function(a,b){\n" + r.js(n.B) + "return a-b; });"
		case "foreach":
			el := make([]string, n.N)
			for i := range el {
				el[i] = "1"
			}
			return "[" + strings.Join(el, ",") + "].forEach(function(){\n" + r.js(n.B) + "});"
		case "getter":
			return "({get x(){\n" + r.js(n.B) + "return 1; }}).x;"
		case "gocall":
			return "gocall(function(){\n" + r.js(n.B) + "});"
		case "gocallsw":
			return "gocallsw(function(){\n" + r.js(n.B) + "});"
		case "gowrap":
			return "gowrap(function(){\n" + r.js(n.B) + "});"
		case "gojoin":
			return "gojoin(function(){\n" + r.js(n.B) + "});"
		case "nested", "nestedsw":
			src := r.js(n.B)
			r.srcs = append(r.srcs, src)
			return fmt.Sprintf("%s(%d);", n.K, len(r.srcs)-1)
		}
	case "forof":
		rid := 0
		if n.Ret {
			rid = evid(n.Id, 3)
		}
		return fmt.Sprintf("for (var x%d of mkIter(%d, %d)) {\n%s}", n.Id, n.N, rid, r.js(n.B))
	case "gen":
		s := fmt.Sprintf("var g%d=(function*(){\n", n.Id)
		for i, seg := range n.S {
			if i > 0 {
				s += "yield 1;\n"
			}
			s += r.js(seg)
		}
		s += "})();\n"
		for range n.S {
			s += fmt.Sprintf("g%d.next();\n", n.Id)
		}
		return s
	case "genret":
		// g.next() runs the try body up to the yield; g.return() then runs the finally block
		return fmt.Sprintf("var g%d=(function*(){\ntry {\n%syield 1;\n} finally {\nlog(%d);\n%s}\n})();\ng%d.next();\ng%d.return(5);\n",
			n.Id, r.js(n.B), evid(n.Id, 2), r.js(n.F), n.Id, n.Id)
	case "async":
		return r.jsAsync(n) + ";"
	case "job":
		return fmt.Sprintf("Promise.resolve().then(function(){\nlog(%d);\n%s});", evid(n.Id, 4), r.js(n.B))
	}
	panic("bad node " + n.T + "/" + n.K)
}

// ---------------------------------------------------------------------------------------------
// rendering to Gallina

func coqCode(ns []Node) string {
	items := []string{}
	for _, n := range ns {
		if n.T == "loop" {
			// unrolled: the body n times, in place
			items = append(items, "L:"+fmt.Sprintf("%d:", n.N)+coqCode(n.B))
			continue
		}
		items = append(items, coqNode(n))
	}
	// build with capp for loops
	res := "CNil"
	for i := len(items) - 1; i >= 0; i-- {
		it := items[i]
		if strings.HasPrefix(it, "L:") {
			rest := it[2:]
			j := strings.IndexByte(rest, ':')
			res = fmt.Sprintf("(capp (crep %s %s) %s)", rest[:j], rest[j+1:], res)
		} else {
			res = fmt.Sprintf("(CCons %s %s)", it, res)
		}
	}
	return res
}

func coqEvThen(id int, ns []Node) string {
	return fmt.Sprintf("(CCons (IEv %d%%N) %s)", id, coqCode(ns))
}

func coqNode(n Node) string {
	switch n.T {
	case "ev":
		return fmt.Sprintf("(IEv %d%%N)", evid(n.Id, 0))
	case "probe":
		return "IProbe"
	case "pthrow":
		return "IProbeThrow"
	case "throw":
		return "IThrow"
	case "try":
		c, f := "CNil", "CNil"
		if n.HC {
			c = coqEvThen(evid(n.Id, 1), n.C)
		}
		if n.HF {
			f = coqEvThen(evid(n.Id, 2), n.F)
		}
		return fmt.Sprintf("(ITry %s %s %s %s %s)", coqCode(n.B), vh.CoqBool(n.HC), c, vh.CoqBool(n.HF), f)
	case "call":
		return fmt.Sprintf("(ICall %s)", coqCode(n.B))
	case "nat":
		switch n.K {
		case "sort", "getter":
			if n.K == "getter" {
				return fmt.Sprintf("(INat NGet (mks [%s]))", coqCode(n.B))
			}
			return fmt.Sprintf("(INat NCb (mks [%s]))", coqCode(n.B))
		case "foreach":
			return fmt.Sprintf("(INat NCb (mks (rep %d %s)))", n.N, coqCode(n.B))
		case "gocall", "gowrap", "gojoin":
			// a wrapped InterruptedError (%w, errors.Join) is still the uncatchable interrupt
			return fmt.Sprintf("(INat (NGo false) (mks [%s]))", coqCode(n.B))
		case "gocallsw":
			return fmt.Sprintf("(INat (NGo true) (mks [%s]))", coqCode(n.B))
		case "nested":
			return fmt.Sprintf("(INat (NRun false) (mks [%s]))", coqCode(n.B))
		case "nestedsw":
			return fmt.Sprintf("(INat (NRun true) (mks [%s]))", coqCode(n.B))
		}
	case "forof":
		ret := "None"
		if n.Ret {
			ret = fmt.Sprintf("(Some %d%%N)", evid(n.Id, 3))
		}
		return fmt.Sprintf("(IForOf %s (mks (rep %d %s)))", ret, n.N, coqCode(n.B))
	case "gen":
		segs := []string{}
		for _, s := range n.S {
			segs = append(segs, coqCode(s))
		}
		return fmt.Sprintf("(IGen (mks %s))", vh.CoqList(segs))
	case "genret":
		return fmt.Sprintf("(IGenRet %s %s)", coqCode(n.B), coqEvThen(evid(n.Id, 2), n.F))
	case "async":
		pres, posts := []string{}, []string{}
		for a := &n; a != nil; a = a.In {
			pres = append(pres, coqCode(a.B))
			posts = append([]string{coqCode(a.F)}, posts...) // resumed innermost first
		}
		return fmt.Sprintf("(IAsyncN (mks %s) (mks %s))", vh.CoqList(pres), vh.CoqList(posts))
	case "job":
		return fmt.Sprintf("(IJob %s)", coqEvThen(evid(n.Id, 4), n.B))
	}
	panic("bad node " + n.T)
}

func coqNats(xs []int) string {
	s := make([]string, len(xs))
	for i, x := range xs {
		s[i] = fmt.Sprintf("%d", x)
	}
	return vh.CoqList(s)
}
func coqNs(xs []int) string {
	s := make([]string, len(xs))
	for i, x := range xs {
		s[i] = fmt.Sprintf("%d%%N", x)
	}
	return vh.CoqList(s)
}

// ---------------------------------------------------------------------------------------------
// executing a case

type obs struct {
	Kind, Tok   int
	Log         []int
	Idle        []int
	Sp0         bool
	FKind, FTok int
	FLog        []int
	FIdle       []int
	FDepth      int // frames of a stack captured by the follow-up run
	After       int // log/probe calls after an (uncleared) Interrupt of the main call
	Probes      int
	PrgNil      int
	Interrupted bool
}

type env struct {
	vm     *goja.Runtime
	log    []int
	probes int
	k      int
	clr    bool
	armed  bool
	after  int
	srcs   []string
	intrAt int
}

func classify(err error) (int, int) {
	if err == nil {
		return 0, 0
	}
	if _, isEx := err.(*goja.Exception); isEx {
		// a script exception (possibly a GoError whose cause chain mentions an interrupt) is NOT the interrupt
		return 2, 0
	}
	var ie *goja.InterruptedError
	if errors.As(err, &ie) {
		tok := -1
		switch v := ie.Value().(type) {
		case int:
			tok = v
		}
		return 1, tok
	}
	var ex *goja.Exception
	if errors.As(err, &ex) {
		return 2, 0
	}
	return 3, 0
}

const setupSrc = `function mkIter(n, rid){ var i=0; var o={next:function(){ i++; return {done:i>n, value:i} }}; ` +
	`if (rid) o["return"]=function(){ log(rid); return {} }; o[Symbol.iterator]=function(){return this}; return o }`

func newEnv(k int, clr bool) *env {
	e := &env{vm: goja.New(), k: k, clr: clr}
	vm := e.vm
	vm.Set("log", func(i int) {
		e.log = append(e.log, i)
		if e.armed {
			e.after++
		}
	})
	probe := func() {
		e.probes++
		e.log = append(e.log, 7)
		if e.armed {
			e.after++
		}
		if e.probes == e.k {
			vm.Interrupt(1000 + e.k)
			if e.clr {
				vm.ClearInterrupt()
			} else {
				e.armed = true
			}
		}
	}
	vm.Set("probe", probe)
	// a host function that (possibly) interrupts and then throws a catchable error: the exception unwinds, closing
	// iterators and entering handlers, while the interrupt is pending
	vm.Set("pthrow", func() {
		probe()
		panic(vm.NewTypeError("pthrow"))
	})
	run := func(sw bool) func(i int) {
		return func(i int) {
			_, err := vm.RunString(e.srcs[i])
			if err != nil && !sw {
				panic(err)
			}
		}
	}
	vm.Set("nested", run(false))
	vm.Set("nestedsw", run(true))
	call := func(sw bool) func(f goja.Value) {
		return func(f goja.Value) {
			fn, ok := goja.AssertFunction(f)
			if !ok {
				panic("not a function")
			}
			_, err := fn(goja.Undefined())
			if err != nil && !sw {
				panic(err)
			}
		}
	}
	wrap := func(join bool) func(f goja.Value) error {
		return func(f goja.Value) error {
			fn, ok := goja.AssertFunction(f)
			if !ok {
				panic("not a function")
			}
			_, err := fn(goja.Undefined())
			if err == nil {
				return nil
			}
			if join {
				return errors.Join(errors.New("host context"), err)
			}
			return fmt.Errorf("host context: %w", err)
		}
	}
	vm.Set("gowrap", wrap(false))
	vm.Set("gojoin", wrap(true))
	vm.Set("gocall", call(false))
	vm.Set("gocallsw", call(true))
	if _, err := vm.RunString(setupSrc); err != nil {
		panic(err)
	}
	return e
}

const followupSrc = `log(776); (function f(){ return new Error("x").stack.split("\n").filter(function(l){ return l.indexOf("at ") >= 0 }).length })()`

func idleVec(vm *goja.Runtime) ([]int, bool, int) {
	id := goja.VerifIdle(vm)
	return []int{id["callStack"], id["tryStack"], id["iterStack"], id["jobQueue"], id["interrupted"], 1 - id["asyncNil"]}, id["sp"] == 0, id["prgNil"]
}

func execCase(c Case) obs {
	e := newEnv(c.K, c.Clr)
	if c.Mode != 0 {
		e.k = 0
	}
	vm := e.vm
	r := &renderer{}
	src := r.js(c.Ops)
	e.srcs = r.srcs
	var fn goja.Callable
	if c.Entry == "call" {
		if _, err := vm.RunString("function main(){\n" + src + "}"); err != nil {
			panic(err)
		}
		fn, _ = goja.AssertFunction(vm.Get("main"))
	}
	switch c.Mode {
	case 1:
		vm.Interrupt(999)
	case 2:
		vm.Interrupt(999)
		vm.ClearInterrupt()
	}
	var err error
	if c.Prof {
		if perr := goja.StartProfile(io.Discard); perr != nil {
			panic(perr)
		}
	}
	if c.Entry == "call" {
		_, err = fn(goja.Undefined())
	} else {
		_, err = vm.RunString(src)
	}
	if c.Prof {
		goja.StopProfile()
	}
	var o obs
	o.Kind, o.Tok = classify(err)
	o.Log = e.log
	o.After = e.after
	o.Probes = e.probes
	o.Idle, o.Sp0, o.PrgNil = idleVec(vm)
	e.log = nil
	e.armed = false
	// an unrelated later run: logs, and captures a stack inside a function called from the program
	fv, err2 := vm.RunString(followupSrc)
	o.FDepth = -1
	if err2 == nil && fv != nil {
		o.FDepth = int(fv.ToInteger())
	}
	o.FKind, o.FTok = classify(err2)
	o.FLog = e.log
	o.FIdle, _, _ = idleVec(vm)
	return o
}

func coqTerm(c Case, o obs) string {
	entry := "ERun"
	if c.Entry == "call" {
		entry = "ECall"
	}
	k := c.K
	if c.Mode != 0 {
		k = 0
	}
	fd := o.FDepth
	if fd < 0 {
		fd = 2 // no value: the follow-up did not run to completion; kind/log/idle already tell
	}
	return fmt.Sprintf("mkCase %s %d %d %s %s %s %d %d%%N %s %s %s %d %d%%N %s %s %d",
		entry, c.Mode, k, vh.CoqBool(c.Clr), vh.CoqBool(c.Strict), coqCode(c.Ops),
		o.Kind, o.Tok, coqNs(o.Log), coqNats(o.Idle), vh.CoqBool(o.Sp0),
		o.FKind, o.FTok, coqNs(o.FLog), coqNats(o.FIdle), fd)
}

const failTerm = "mkCase ERun 0 0 false true CNil 99 0%N [] [] false 99 0%N [] [] 0"

func kinds(ns []Node, acc map[string]bool) {
	for _, n := range ns {
		t := n.T
		if t == "nat" {
			t = "nat:" + n.K
		}
		if t == "forof" && n.Ret {
			t = "forof:ret"
		}
		acc[t] = true
		kinds(n.B, acc)
		kinds(n.C, acc)
		kinds(n.F, acc)
		if n.In != nil {
			acc["async:nested"] = true
			kinds([]Node{*n.In}, acc)
		}
		for _, s := range n.S {
			kinds(s, acc)
		}
	}
}

func runCase(w *vh.Writer, c Case) obs {
	cj := vh.MustJSON(c)
	var res obs
	vh.Guard(w, cj, failTerm, 20, func() vh.Record {
		o := execCase(c)
		res = o
		ks := map[string]bool{}
		kinds(c.Ops, ks)
		tags := []string{"entry:" + c.Entry, fmt.Sprintf("mode:%d", c.Mode), fmt.Sprintf("kind:%d", o.Kind)}
		for k := range ks {
			tags = append(tags, "has:"+k)
		}
		if c.Clr {
			tags = append(tags, "clear")
		}
		if c.Prof {
			tags = append(tags, "profiler")
		}
		if o.Kind == 1 {
			tags = append(tags, fmt.Sprintf("after_interrupt_events:%d", o.After))
			leak := false
			for _, x := range o.Idle {
				if x != 0 {
					leak = true
				}
			}
			if leak || !o.Sp0 {
				tags = append(tags, "idle:leaked")
			} else {
				tags = append(tags, "idle:clean")
			}
			tags = append(tags, fmt.Sprintf("prgNil:%d", o.PrgNil))
		}
		return vh.Record{
			Case: cj, Coq: coqTerm(c, o),
			Obs: fmt.Sprintf("kind=%d tok=%d log=%v idle=%v sp0=%v after=%d | follow kind=%d tok=%d log=%v idle=%v",
				o.Kind, o.Tok, o.Log, o.Idle, o.Sp0, o.After, o.FKind, o.FTok, o.FLog, o.FIdle) + fmt.Sprintf(" depth=%d", o.FDepth),
			Tags:       tags,
			Nontrivial: o.Kind == 1 && len(c.Ops) > 0,
		}
	})
	return res
}

// ---------------------------------------------------------------------------------------------
// generation

type gen struct {
	r      *vh.Rng
	serial int
	budget int
}

func (g *gen) id() int { g.serial++; return g.serial }

func (g *gen) body(depth int, inTry bool) []Node {
	n := 1 + g.r.Intn(3)
	var out []Node
	for i := 0; i < n && g.budget > 0; i++ {
		out = append(out, g.node(depth, inTry))
	}
	// a probe in most bodies
	if g.r.Chance(70) {
		p := Node{T: "probe"}
		at := g.r.Intn(len(out) + 1)
		out = append(out[:at], append([]Node{p}, out[at:]...)...)
	}
	return out
}

func (g *gen) node(depth int, inTry bool) Node {
	g.budget--
	if depth <= 0 || g.budget <= 0 {
		switch g.r.Pick(5, 5, 1) {
		case 0:
			return Node{T: "ev", Id: g.id()}
		case 1:
			return Node{T: "probe"}
		default:
			if inTry {
				if g.r.Chance(50) {
					return Node{T: "pthrow"}
				}
				return Node{T: "throw"}
			}
			return Node{T: "ev", Id: g.id()}
		}
	}
	d := depth - 1
	switch g.r.Pick(10, 10, 5, 6, 14, 6, 18, 10, 7, 7, 8, 4) {
	case 0:
		return Node{T: "ev", Id: g.id()}
	case 1:
		return Node{T: "probe"}
	case 2:
		if inTry {
			if g.r.Chance(60) {
				return Node{T: "pthrow"}
			}
			return Node{T: "throw"}
		}
		return Node{T: "probe"}
	case 3:
		return Node{T: "loop", Id: g.id(), N: 1 + g.r.Intn(3), B: g.body(d, inTry)}
	case 4:
		n := Node{T: "try", Id: g.id()}
		switch g.r.Intn(3) {
		case 0:
			n.HC = true
		case 1:
			n.HF = true
		default:
			n.HC, n.HF = true, true
		}
		n.B = g.body(d, true)
		if n.HC {
			n.C = g.body(d, inTry || n.HF)
		}
		if n.HF {
			n.F = g.body(d, inTry)
		}
		return n
	case 5:
		return Node{T: "call", B: g.body(d, inTry)}
	case 6:
		ks := []string{"sort", "foreach", "getter", "gocall", "gocallsw", "gowrap", "gowrap", "gojoin", "nested", "nestedsw"}
		n := Node{T: "nat", K: ks[g.r.Intn(len(ks))]}
		if n.K == "foreach" {
			n.N = 1 + g.r.Intn(3)
		}
		n.B = g.body(d, inTry || n.K == "gocallsw" || n.K == "nestedsw")
		return n
	case 7:
		return Node{T: "forof", Id: g.id(), N: 1 + g.r.Intn(3), Ret: g.r.Chance(50), B: g.body(d, inTry)}
	case 8:
		n := Node{T: "gen", Id: g.id()}
		for i, k := 0, 1+g.r.Intn(3); i < k; i++ {
			n.S = append(n.S, g.body(d, inTry))
		}
		return n
	case 9:
		n := Node{T: "async", B: g.body(d, true), F: g.body(d, true)}
		// chains: outer awaits middle awaits inner
		cur := &n
		for depth := 0; depth < 2 && g.r.Chance(55); depth++ {
			in := Node{T: "async", B: g.body(d, true), F: g.body(d, true)}
			cur.In = &in
			cur = cur.In
		}
		return n
	case 10:
		return Node{T: "job", Id: g.id(), B: g.body(d, true)}
	default:
		n := Node{T: "genret", Id: g.id()}
		n.B = g.body(d, true)
		n.F = g.body(d, inTry)
		return n
	}
}

func (g *gen) program() []Node {
	g.serial = 0
	g.budget = 6 + g.r.Intn(22)
	depth := 1 + g.r.Intn(4)
	p := g.body(depth, false)
	for len(p) < 2 {
		p = append(p, g.body(depth, false)...)
	}
	return p
}

func main() {
	m := vh.ParseArgs()
	switch m.Cmd {
	case "gen":
		w := vh.NewWriter(m.Out)
		defer w.Close()
		g := &gen{r: vh.NewRng(m.Seed)}
		made := 0
		for made < m.N {
			prog := g.program()
			entry := "run"
			if g.r.Chance(30) {
				entry = "call"
			}
			// k = 0: count the probe calls of the undisturbed run
			prof := g.r.Chance(12)
			o := runCase(w, Case{Entry: entry, Mode: 0, K: 0, Ops: prog})
			made++
			// every probe position
			step := 1
			if o.Probes > 14 {
				step = 1 + g.r.Intn(3) // long runs: a random stride, still hitting early and late positions
			}
			for k := 1 + g.r.Intn(step); k <= o.Probes && k <= 60 && made < m.N; k += step {
				runCase(w, Case{Entry: entry, Mode: 0, K: k, Prof: prof, Ops: prog})
				made++
				if g.r.Chance(25) && made < m.N {
					runCase(w, Case{Entry: entry, Mode: 0, K: k, Clr: true, Ops: prog})
					made++
				}
			}
			if g.r.Chance(30) && made < m.N {
				runCase(w, Case{Entry: entry, Mode: 1, Prof: prof, Ops: prog})
				made++
			}
			if g.r.Chance(20) && made < m.N {
				runCase(w, Case{Entry: entry, Mode: 2, Ops: prog})
				made++
			}
		}
	case "replay":
		w := vh.NewWriter(m.Out)
		defer w.Close()
		for _, cj := range vh.ReadCases(m.In) {
			var c Case
			if err := json.Unmarshal(cj, &c); err != nil {
				panic(err)
			}
			runCase(w, c)
		}
	case "async":
		os.Exit(asyncStage(m))
	default:
		fmt.Fprintln(os.Stderr, "unknown command", m.Cmd)
		os.Exit(2)
	}
}

// ---------------------------------------------------------------------------------------------
// asynchronous stage (built with -race): a second goroutine interrupts a looping script

var asyncScripts = []string{
	`for(;;){}`,
	`var i=0; for(;;){ i++; try { i++ } finally { i-- } }`,
	`function f(){ for(;;){} } try { f() } catch(e) { log(1) } finally { log(2) }`,
	`for(;;){ [3,2,1].sort(function(a,b){ return a-b }) }`,
	`for(;;){ [1,2,3].forEach(function(x){ try { x++ } finally { x-- } }) }`,
	`var o={get x(){ for(;;){} }}; o.x`,
	`for (var x of mkIter(1e12, 0)) { }`,
	`function* g(){ for(;;){ yield 1 } } for (var y of g()) { }`,
	`(async function(){ for(;;){ await 0 } })()`,
	`Promise.resolve().then(function(){ for(;;){} })`,
	`gocall(function(){ for(;;){} })`,
	`nestedsrc("for(;;){}")`,
	`function rec(n){ if (n>0) rec(n-1); else for(;;){} } rec(50)`,
	`try { for(;;){ try { throw 1 } catch (e) {} } } finally { log(2) }`,
}

func asyncStage(m vh.Mode) int {
	rng := vh.NewRng(m.Seed)
	w := vh.NewWriter(m.Out)
	defer w.Close()
	bad := 0
	for i := 0; i < m.N; i++ {
		si := rng.Intn(len(asyncScripts))
		delayUs := rng.Intn(3000)
		if rng.Chance(20) {
			delayUs = 0
		}
		clearFirst := rng.Chance(20)
		double := rng.Chance(35) // Interrupt called twice back to back: the second write of interruptVal can overlap the runner's read
		two := rng.Chance(35)    // a second, independent interrupting goroutine (two concurrent writers of interruptVal)
		prof := rng.Chance(15)   // the script runs in the profiler's run loop
		tok := 5000 + i
		tok2 := 900000 + i
		var handlerLog []int
		vm := goja.New()
		vm.Set("log", func(i int) { handlerLog = append(handlerLog, i) })
		vm.Set("gocall", func(f goja.Value) {
			fn, _ := goja.AssertFunction(f)
			if _, err := fn(goja.Undefined()); err != nil {
				panic(err)
			}
		})
		vm.Set("nestedsrc", func(s string) {
			if _, err := vm.RunString(s); err != nil {
				panic(err)
			}
		})
		if _, err := vm.RunString(setupSrc); err != nil {
			panic(err)
		}
		done := make(chan error, 1)
		fired := make(chan struct{})
		fired2 := make(chan struct{})
		if prof {
			if perr := goja.StartProfile(io.Discard); perr != nil {
				panic(perr)
			}
		}
		go func() {
			defer close(fired2)
			if two {
				if delayUs > 0 {
					time.Sleep(time.Duration(delayUs) * time.Microsecond)
				}
				vm.Interrupt(tok2)
			}
		}()
		go func() {
			defer close(fired)
			// the interrupting goroutine
			if clearFirst {
				// an earlier interrupt that is withdrawn, then the real one
				vm.Interrupt(-1)
				vm.ClearInterrupt()
			}
			if delayUs > 0 {
				time.Sleep(time.Duration(delayUs) * time.Microsecond)
			}
			vm.Interrupt(tok)
			if double {
				vm.Interrupt(tok)
			}
		}()
		go func() {
			_, err := vm.RunString(asyncScripts[si])
			done <- err
		}()
		verdict := "ok"
		var err error
		select {
		case err = <-done:
		case <-time.After(10 * time.Second):
			verdict = "HANG"
		}
		kind, got := 0, 0
		if verdict == "ok" {
			kind, got = classify(err)
			// a withdrawn interrupt (-1) may legitimately be the one observed if the script started before ClearInterrupt
			if kind != 1 || (got != tok && !(clearFirst && got == -1) && !(two && got == tok2)) {
				verdict = fmt.Sprintf("WRONG kind=%d tok=%d", kind, got)
			}
			if len(handlerLog) != 0 {
				verdict = fmt.Sprintf("HANDLER-RAN %v", handlerLog)
			}
			// the real interrupt may arrive later while idle (when the withdrawn one was observed): wait until the
			// interrupter is done, then clear, as the API documents for re-use
			<-fired
			<-fired2
			vm.ClearInterrupt()
		}
		if prof {
			goja.StopProfile()
		}
		rec := map[string]interface{}{"i": i, "script": asyncScripts[si], "delay_us": delayUs, "clear_first": clearFirst, "double": double, "two": two, "prof": prof,
			"verdict": verdict, "kind": kind, "tok": got, "want": tok}
		if verdict == "ok" {
			id := goja.VerifIdle(vm)
			rec["idle"] = []int{id["callStack"], id["tryStack"], id["iterStack"], id["jobQueue"], id["interrupted"]}
			leaked := id["callStack"] != 0 || id["tryStack"] != 0 || id["iterStack"] != 0 || id["jobQueue"] != 0
			rec["leaked"] = leaked
			if leaked {
				verdict = fmt.Sprintf("NOT-CLEAN idle=%v", rec["idle"])
				rec["verdict"] = verdict
			} else {
				v, err2 := vm.RunString("1+1")
				if err2 != nil || v.ToInteger() != 2 {
					verdict = fmt.Sprintf("NOT-REUSABLE %v", err2)
					rec["verdict"] = verdict
				}
			}
		}
		if verdict != "ok" {
			bad++
		}
		b, _ := json.Marshal(rec)
		w.Put(vh.Record{Case: b, Obs: verdict, Tags: []string{"async:" + verdict}})
		if verdict == "HANG" {
			w.Close()
			return 3
		}
	}
	if bad > 0 {
		return 1
	}
	return 0
}
