// C09 correspondence harness: (generator body, driver history) pairs from a small body language, run on goja
// (or, for validating the spec model during development, on node), observed as {value, done}/thrown sequences,
// side-effect logs and locals snapshots; the same bodies as async functions driven by settled promises.
package main

import (
	"encoding/json"
	"fmt"
	"os"
	"os/exec"
	"sort"
	"strings"

	"github.com/dop251/goja"
	"verifharness/vh"
)

// ---------------------------------------------------------------------------------------------------------
// case format

type Exp struct {
	K string `json:"k"` // const var add call spread arr obj tpl yield ystar
	Z int64  `json:"z,omitempty"`
	X int    `json:"x,omitempty"`
	A *Exp   `json:"a,omitempty"`
	B *Exp   `json:"b,omitempty"`
	S *Src   `json:"s,omitempty"`
}

type Hand struct {
	N      int    `json:"n"`
	Base   int64  `json:"base"`
	Ret    int64  `json:"ret"`
	Thr    string `json:"thr,omitempty"` // "", D, C, T, N
	Rtn    string `json:"rtn,omitempty"`
	BadAt  int    `json:"badAt"` // -1: never
	BadBeh string `json:"badBeh,omitempty"`
}

type Src struct {
	K    string `json:"k"` // gen hand bad
	Arg  *Exp   `json:"arg,omitempty"`
	Body *Stmt  `json:"body,omitempty"`
	H    *Hand  `json:"h,omitempty"`
}

type Cmd struct {
	K     string `json:"k"` // next throw return
	V     int64  `json:"v"`
	Shape int    `json:"shape,omitempty"`
}

type Stmt struct {
	K   string `json:"k"` // skip expr yield ystar assign destr log loglocals seq if repeat trycatch tryfinally trycf return throw break continue forof reenter
	E   *Exp   `json:"e,omitempty"`
	X   int    `json:"x,omitempty"`
	N   int    `json:"n,omitempty"`
	A   *Stmt  `json:"a,omitempty"`
	B   *Stmt  `json:"b,omitempty"`
	C   *Stmt  `json:"c,omitempty"`
	S   *Src   `json:"s,omitempty"`
	Cmd *Cmd   `json:"cmd,omitempty"`
}

type Case struct {
	Kind  string `json:"kind"` // gen async
	Body  *Stmt  `json:"body"`
	Body2 *Stmt  `json:"body2,omitempty"`
	Ops   []Cmd  `json:"ops"`
	Ops2  []Cmd  `json:"ops2,omitempty"`
	Cap   bool   `json:"cap,omitempty"`   // a closure captures the locals (they live in the stash) and exposes them
	Drive string `json:"drive,omitempty"` // js | go
}

// ---------------------------------------------------------------------------------------------------------
// random generation

type gctx struct {
	top      bool // directly in the top-level body
	async    bool
	loop     int
	yieldInt bool // the value of a yield expression is an integer (driver-supplied)
	inner    int  // nesting of inner generators
}

type gen struct {
	r      *vh.Rng
	budget int
	tags   map[string]bool
}

func (g *gen) tag(s string) { g.tags[s] = true }

func (g *gen) spend() bool {
	if g.budget <= 0 {
		return false
	}
	g.budget--
	return true
}

func (g *gen) intExp(c gctx, d int) *Exp {
	r := g.r
	if d <= 0 || g.budget <= 0 {
		if r.Bool() {
			return &Exp{K: "const", Z: int64(r.Intn(9) + 1)}
		}
		return &Exp{K: "var", X: r.Intn(3)}
	}
	if c.async && c.inner == 0 && r.Chance(3) {
		g.tag("await-bad-promise")
		return &Exp{K: "awaitbad", Z: int64(40 + r.Intn(9))}
	}
	switch r.Pick(3, 3, 3, 2, 1, 6) {
	case 0:
		return &Exp{K: "const", Z: int64(r.Intn(10))}
	case 1:
		return &Exp{K: "var", X: r.Intn(3)}
	case 2:
		return &Exp{K: "add", A: g.intExp(c, d-1), B: g.intExp(c, d-1)}
	case 3:
		return &Exp{K: "call", A: g.intExp(c, d-1), B: g.intExp(c, d-1)}
	case 4:
		return &Exp{K: "spread", A: g.intExp(c, d-1), B: g.intExp(c, d-1)}
	default:
		if c.yieldInt && g.spend() {
			g.tag("yield-operand")
			return &Exp{K: "yield", A: g.yieldOperand(c, d-1)}
		}
		return &Exp{K: "add", A: g.intExp(c, d-1), B: &Exp{K: "const", Z: int64(r.Intn(5))}}
	}
}

// what a yield may carry: anything at top level, integers inside inner generators
func (g *gen) yieldOperand(c gctx, d int) *Exp {
	if c.inner > 0 {
		return g.intExp(c, d)
	}
	return g.anyExp(c, d)
}

func (g *gen) starAllowed(c gctx) bool {
	if c.async && c.inner == 0 {
		return false
	}
	return c.inner < 2
}

func (g *gen) anyExp(c gctx, d int) *Exp {
	r := g.r
	if d <= 0 || g.budget <= 0 {
		return g.intExp(c, d)
	}
	switch r.Pick(6, 1, 2, 1, 1, 3, 2) {
	case 0:
		return g.intExp(c, d)
	case 1:
		return &Exp{K: "var", X: 3}
	case 2:
		g.tag("array-literal")
		return &Exp{K: "arr", A: g.anyExp(c, d-1), B: g.anyExp(c, d-1)}
	case 3:
		g.tag("object-literal")
		return &Exp{K: "obj", A: g.anyExp(c, d-1), B: g.anyExp(c, d-1)}
	case 4:
		g.tag("template")
		return &Exp{K: "tpl", A: g.anyExp(c, d-1), B: g.anyExp(c, d-1)}
	case 5:
		if g.starAllowed(c) && g.spend() {
			return &Exp{K: "ystar", S: g.src(c, d-1, true)}
		}
		return g.intExp(c, d)
	default:
		if !c.yieldInt && g.spend() && !(c.async && c.inner == 0 && false) {
			return &Exp{K: "yield", A: g.yieldOperand(c, d-1)}
		}
		return g.intExp(c, d)
	}
}

func (g *gen) hand() *Hand {
	r := g.r
	beh := func() string { return []string{"", "D", "C", "T", "N"}[r.Pick(4, 2, 3, 2, 1)] }
	h := &Hand{N: r.Intn(4), Base: int64(100 * (r.Intn(5) + 1)), Ret: int64(60 + r.Intn(9)), Thr: beh(), Rtn: beh(), BadAt: -1}
	if r.Chance(15) {
		h.BadAt = r.Intn(3)
		h.BadBeh = []string{"T", "N", "D"}[r.Intn(3)]
	}
	if h.Thr == "" {
		g.tag("hand-missing-throw")
	}
	if h.Rtn == "" {
		g.tag("hand-missing-return")
	}
	return h
}

// star: the source is the operand of a yield* (else of a for-of)
func (g *gen) src(c gctx, d int, star bool) *Src {
	r := g.r
	k := r.Pick(6, 3, 1)
	switch k {
	case 0:
		ic := gctx{inner: c.inner + 1, async: c.async}
		if star {
			ic.yieldInt = c.yieldInt
			g.tag("ystar-generator")
		} else {
			g.tag("forof-generator")
		}
		arg := g.intExp(c, 1)
		return &Src{K: "gen", Arg: arg, Body: g.block(ic, d, 1+r.Intn(3))}
	case 1:
		if star {
			g.tag("ystar-hand")
		} else {
			g.tag("forof-hand")
		}
		h := g.hand()
		return &Src{K: "hand", H: h}
	default:
		g.tag("not-iterable")
		return &Src{K: "bad"}
	}
}

func (g *gen) block(c gctx, d int, n int) *Stmt {
	var s *Stmt
	for i := 0; i < n; i++ {
		t := g.stmt(c, d)
		if s == nil {
			s = t
		} else {
			s = &Stmt{K: "seq", A: s, B: t}
		}
	}
	if s == nil {
		s = &Stmt{K: "skip"}
	}
	return s
}

func (g *gen) stmt(c gctx, d int) *Stmt {
	r := g.r
	if d <= 0 || g.budget <= 0 {
		switch r.Pick(3, 2, 2, 1) {
		case 0:
			if g.spend() {
				return &Stmt{K: "yield", E: g.yieldOperand(c, 1)}
			}
			return &Stmt{K: "loglocals"}
		case 1:
			return &Stmt{K: "log", E: g.anyExp(c, 1)}
		case 2:
			return &Stmt{K: "assign", X: r.Intn(3), E: g.intExp(c, 1)}
		default:
			return &Stmt{K: "loglocals"}
		}
	}
	switch r.Pick(12, 6, 5, 3, 3, 4, 4, 9, 1, 1, 2, 5, 4, 2, 3) {
	case 0:
		if g.spend() {
			return &Stmt{K: "yield", E: g.yieldOperand(c, 2)}
		}
		return &Stmt{K: "loglocals"}
	case 1:
		return &Stmt{K: "assign", X: r.Intn(3), E: g.intExp(c, 2)}
	case 2:
		return &Stmt{K: "log", E: g.anyExp(c, 2)}
	case 3:
		return &Stmt{K: "loglocals"}
	case 4:
		if r.Bool() {
			return &Stmt{K: "assign", X: 3, E: g.anyExp(c, 2)}
		}
		g.tag("destructuring-default")
		return &Stmt{K: "destr", X: r.Intn(3), E: g.intExp(c, 2)}
	case 5:
		return &Stmt{K: "if", E: g.intExp(c, 1), A: g.block(c, d-1, 1+r.Intn(2)), B: g.block(c, d-1, r.Intn(2))}
	case 6:
		lc := c
		lc.loop++
		g.tag("loop")
		return &Stmt{K: "repeat", N: 1 + r.Intn(3), X: r.Intn(3), A: g.block(lc, d-1, 1+r.Intn(3))}
	case 7:
		switch r.Pick(2, 4, 3) {
		case 0:
			g.tag("try-catch")
			return &Stmt{K: "trycatch", A: g.block(c, d-1, 1+r.Intn(3)), B: g.block(c, d-1, 1+r.Intn(2))}
		case 1:
			g.tag("try-finally")
			return &Stmt{K: "tryfinally", A: g.block(c, d-1, 1+r.Intn(3)), B: g.block(c, d-1, 1+r.Intn(2))}
		default:
			g.tag("try-catch-finally")
			return &Stmt{K: "trycf", A: g.block(c, d-1, 1+r.Intn(3)), B: g.block(c, d-1, 1+r.Intn(2)), C: g.block(c, d-1, 1+r.Intn(2))}
		}
	case 8:
		if c.inner > 0 {
			return &Stmt{K: "return", E: g.intExp(c, 1)}
		}
		return &Stmt{K: "return", E: g.anyExp(c, 2)}
	case 9:
		return &Stmt{K: "throw", E: &Exp{K: "add", A: &Exp{K: "const", Z: 500}, B: g.intExp(c, 1)}}
	case 10:
		if c.loop > 0 {
			if r.Bool() {
				return &Stmt{K: "break"}
			}
			return &Stmt{K: "continue"}
		}
		return &Stmt{K: "loglocals"}
	case 11:
		if c.inner < 2 && g.spend() {
			lc := c
			lc.loop++
			return &Stmt{K: "forof", X: r.Intn(3), S: g.src(c, d-1, false), A: g.block(lc, d-1, 1+r.Intn(3))}
		}
		return &Stmt{K: "loglocals"}
	case 12:
		if g.starAllowed(c) && g.spend() {
			return &Stmt{K: "ystar", S: g.src(c, d-1, true)}
		}
		return &Stmt{K: "loglocals"}
	case 13:
		if !c.async {
			g.tag("reenter")
			k := []string{"next", "throw", "return"}[r.Pick(3, 1, 1)]
			return &Stmt{K: "reenter", Cmd: &Cmd{K: k, V: int64(70 + r.Intn(9))}}
		}
		return &Stmt{K: "loglocals"}
	default:
		return &Stmt{K: "expr", E: g.anyExp(c, 2)}
	}
}

func genCase(r *vh.Rng) (Case, []string) {
	g := &gen{r: r, budget: 6 + r.Intn(10), tags: map[string]bool{}}
	var c Case
	c.Cap = r.Chance(60)
	if r.Chance(12) {
		c.Kind = "async"
		ctx := gctx{top: true, async: true, yieldInt: true}
		c.Body = g.block(ctx, 3, 2+r.Intn(3))
		g.budget = 3 + r.Intn(5)
		c.Body2 = g.block(ctx, 2, 1+r.Intn(3))
		mk := func() []Cmd {
			var ops []Cmd
			n := r.Intn(6)
			for i := 0; i < n; i++ {
				if r.Chance(75) {
					ops = append(ops, Cmd{K: "next", V: int64(10 + i)})
				} else {
					ops = append(ops, Cmd{K: "throw", V: int64(900 + i)})
				}
			}
			return ops
		}
		c.Ops = mk()
		c.Ops2 = mk()
		if c.Ops == nil {
			c.Ops = []Cmd{}
		}
		g.tag("kind:async")
	} else {
		c.Kind = "gen"
		ctx := gctx{top: true, yieldInt: true}
		c.Body = g.block(ctx, 3, 3+r.Intn(4))
		n := 1 + r.Intn(6)
		for i := 0; i < n; i++ {
			k := []string{"next", "throw", "return"}[r.Pick(6, 2, 2)]
			base := map[string]int64{"next": 10, "throw": 900, "return": 800}[k]
			c.Ops = append(c.Ops, Cmd{K: k, V: base + int64(i), Shape: r.Intn(6)})
		}
		c.Drive = "js"
		if r.Chance(30) {
			c.Drive = "go"
		}
		g.tag("kind:gen")
		g.tag("drive:" + c.Drive)
	}
	var tags []string
	for t := range g.tags {
		tags = append(tags, t)
	}
	sort.Strings(tags)
	return c, tags
}

// ---------------------------------------------------------------------------------------------------------
// JavaScript

const prelude = `
var LOGBUF = [], OUT = [], G, PEEK = null, DUMMY = 0;
function R(v) {
  if (v === undefined) return "U";
  if (typeof v === "number") return Number.isInteger(v) ? v : "?num";
  if (v instanceof TypeError) return "TE";
  if (Array.isArray(v)) return {a: v.map(R)};
  if (v && typeof v === "object" && v.tpl) return {t: v.tpl.map(R)};
  if (v && typeof v === "object" && ("a" in v) && ("b" in v)) return {o: [R(v.a), R(v.b)]};
  return "?" + Object.prototype.toString.call(v) + ":" + String(v);
}
function LOG(v) { LOGBUF.push(R(v)); }
function F(a, b) { LOG([77, a, b]); return a * 2 + b; }
function T(s, ...v) { return {tpl: v}; }
function OFF(a, n) { return typeof a === "number" ? a + n : n; }
function mkHand(n, base, ret, thr, rtn, badAt, badBeh) {
  var pos = 0;
  function beh(b, p, a) {
    switch (b) {
    case "D": return {value: a, done: true};
    case "C": return p < n ? {value: OFF(a, 1000), done: false} : {value: a, done: true};
    case "T": throw OFF(a, 2000);
    default: return undefined;
    }
  }
  var it = {
    [Symbol.iterator]() { return this; },
    next(a) {
      LOG([50, a]);
      var p = pos++;
      if (badAt === p) {
        if (badBeh === "T") throw base + 700;
        if (badBeh === "N") return undefined;
        return {value: undefined, done: true};
      }
      if (p < n) return {value: base + p, done: false};
      return {value: ret, done: true};
    }
  };
  if (thr) it.throw = function(a) { LOG([51, a]); var p = pos++; return beh(thr, p, a); };
  if (rtn) it["return"] = function(a) { LOG([52, a]); var p = pos++; return beh(rtn, p, a); };
  return it;
}
function* SMALLGEN() { try { yield 1; yield 2; } finally { DUMMY++; } }
function CALL(m, v, shape) {
  switch (shape) {
  case 1: return (function() { var a = [v]; return (function(b) { return G[m](b); })(a[0]); })();
  case 2: try { return G[m](v); } finally { DUMMY++; }
  case 3: for (const q of [1, 2]) { return G[m](v); }
  case 4: for (const q of SMALLGEN()) { try { var r = [1, 2, G[m](v)]; return r[2]; } finally { DUMMY++; } }
  case 5: return [7, 8, [9, G[m](v)]][2][1];
  default: return G[m](v);
  }
}
function STEP(m, v, shape) {
  LOGBUF = [];
  var res;
  try { var r = CALL(m, v, shape); res = ["r", R(r.value), r.done === true]; } catch (e) { res = ["t", R(e)]; }
  OUT.push({log: LOGBUF, res: res, peek: PEEK ? PEEK().map(R) : [0, 0, 0, "U"]});
}
`

type printer struct {
	sb      strings.Builder
	async   bool
	id      string // async instance name
	cap     bool
	loopVar int
	tmp     int
}

func jsInt(z int64) string {
	if z < 0 {
		return fmt.Sprintf("(%d)", z)
	}
	return fmt.Sprintf("%d", z)
}

func varName(x int) string {
	if x == 3 {
		return "ev"
	}
	return fmt.Sprintf("x%d", x)
}

func (p *printer) exp(e *Exp, inner bool) string {
	switch e.K {
	case "const":
		return jsInt(e.Z)
	case "var":
		return varName(e.X)
	case "add":
		return "(" + p.exp(e.A, inner) + " + " + p.exp(e.B, inner) + ")"
	case "call":
		return "F(" + p.exp(e.A, inner) + ", " + p.exp(e.B, inner) + ")"
	case "spread":
		return "F(...[" + p.exp(e.A, inner) + ", " + p.exp(e.B, inner) + "])"
	case "arr":
		return "[" + p.exp(e.A, inner) + ", " + p.exp(e.B, inner) + "]"
	case "obj":
		return "({a: " + p.exp(e.A, inner) + ", b: " + p.exp(e.B, inner) + "})"
	case "tpl":
		return "T`${" + p.exp(e.A, inner) + "}|${" + p.exp(e.B, inner) + "}`"
	case "yield":
		if p.async && !inner {
			return "(await DRV(" + p.id + ", " + p.exp(e.A, inner) + "))"
		}
		return "(yield " + p.exp(e.A, inner) + ")"
	case "ystar":
		return "(yield* " + p.src(e.S, inner) + ")"
	case "awaitbad":
		return fmt.Sprintf("(await BAD(%d))", e.Z)
	}
	panic("bad exp " + e.K)
}

func q(s string) string {
	if s == "" {
		return "null"
	}
	return `"` + s + `"`
}

func (p *printer) src(s *Src, inner bool) string {
	switch s.K {
	case "gen":
		ip := &printer{async: p.async, id: p.id, cap: p.cap, tmp: p.tmp + 100}
		ip.stmt(s.Body, true, "    ")
		lg := "const LG = () => LOG([80, x0, x1, x2]);"
		return "(function*(x0) { let x1 = 0, x2 = 0, ev; " + lg + "\n" + ip.sb.String() + "  })(" + p.exp(s.Arg, inner) + ")"
	case "hand":
		h := s.H
		return fmt.Sprintf("mkHand(%d, %d, %d, %s, %s, %d, %s)", h.N, h.Base, h.Ret, q(h.Thr), q(h.Rtn), h.BadAt, q(h.BadBeh))
	default:
		return "5"
	}
}

func (p *printer) stmt(s *Stmt, inner bool, ind string) {
	w := func(f string, a ...interface{}) { p.sb.WriteString(ind + fmt.Sprintf(f, a...) + "\n") }
	switch s.K {
	case "skip":
		w(";")
	case "expr":
		w("(%s);", p.exp(s.E, inner))
	case "yield":
		if p.async && !inner {
			w("await DRV(%s, %s);", p.id, p.exp(s.E, inner))
		} else {
			w("yield %s;", p.exp(s.E, inner))
		}
	case "ystar":
		w("yield* %s;", p.src(s.S, inner))
	case "assign":
		w("%s = %s;", varName(s.X), p.exp(s.E, inner))
	case "destr":
		w("[%s = %s] = [];", varName(s.X), p.exp(s.E, inner))
	case "log":
		w("LOG(%s);", p.exp(s.E, inner))
	case "loglocals":
		if p.cap || inner {
			w("LG();")
		} else {
			w("LOG([80, x0, x1, x2]);")
		}
	case "seq":
		p.stmt(s.A, inner, ind)
		p.stmt(s.B, inner, ind)
	case "if":
		w("if (%s) {", p.exp(s.E, inner))
		p.stmt(s.A, inner, ind+"  ")
		w("} else {")
		p.stmt(s.B, inner, ind+"  ")
		w("}")
	case "repeat":
		p.loopVar++
		v := fmt.Sprintf("i%d", p.loopVar)
		w("for (let %s = 0; %s < %d; %s++) { %s = %s;", v, v, s.N, v, varName(s.X), v)
		p.stmt(s.A, inner, ind+"  ")
		w("}")
	case "trycatch":
		w("try {")
		p.stmt(s.A, inner, ind+"  ")
		w("} catch (e_) { ev = e_;")
		p.stmt(s.B, inner, ind+"  ")
		w("}")
	case "tryfinally":
		w("try {")
		p.stmt(s.A, inner, ind+"  ")
		w("} finally {")
		p.stmt(s.B, inner, ind+"  ")
		w("}")
	case "trycf":
		w("try {")
		p.stmt(s.A, inner, ind+"  ")
		w("} catch (e_) { ev = e_;")
		p.stmt(s.B, inner, ind+"  ")
		w("} finally {")
		p.stmt(s.C, inner, ind+"  ")
		w("}")
	case "return":
		w("return %s;", p.exp(s.E, inner))
	case "throw":
		w("throw %s;", p.exp(s.E, inner))
	case "break":
		w("break;")
	case "continue":
		w("continue;")
	case "forof":
		w("for (%s of %s) {", varName(s.X), p.src(s.S, inner))
		p.stmt(s.A, inner, ind+"  ")
		w("}")
	case "reenter":
		p.tmp++
		w("try { var r%d = G.%s(%d); LOG([90, r%d.value, +r%d.done]); } catch (e_) { LOG([91, e_]); }", p.tmp, cmdName(s.Cmd.K), s.Cmd.V, p.tmp, p.tmp)
	default:
		panic("bad stmt " + s.K)
	}
}

func cmdName(k string) string {
	if k == "return" {
		return "return"
	}
	return k
}

func genScript(c Case) string {
	var sb strings.Builder
	sb.WriteString(prelude)
	if c.Kind == "async" {
		hist := func(ops []Cmd) string {
			var xs []string
			for _, o := range ops {
				xs = append(xs, fmt.Sprintf(`["%s", %d]`, o.K, o.V))
			}
			return "[" + strings.Join(xs, ", ") + "]"
		}
		sb.WriteString("var HIST = {A: " + hist(c.Ops) + ", B: " + hist(c.Ops2) + "}, IDX = {A: 0, B: 0}, FIN = {};\n")
		sb.WriteString(`function DRV(id, v) { LOG([60, v]); var h = HIST[id], i = IDX[id]++;
  if (i < h.length) return h[i][0] === "throw" ? Promise.reject(h[i][1]) : Promise.resolve(h[i][1]);
  return Promise.resolve(0); }
function BAD(n) { LOG([61, n]); var p = Promise.resolve(1); Object.defineProperty(p, "constructor", { get() { throw n; } }); return p; }
`)
		for i, b := range []*Stmt{c.Body, c.Body2} {
			id := []string{"A", "B"}[i]
			p := &printer{async: true, id: `"` + id + `"`, cap: true, tmp: i * 1000}
			p.stmt(b, false, "  ")
			sb.WriteString("async function " + id + "() { let x0 = 0, x1 = 0, x2 = 0, ev; const LG = () => LOG([80, x0, x1, x2]);\n" + p.sb.String() + "}\n")
		}
		sb.WriteString(`A().then(v => { FIN.A = ["f", R(v)]; }, e => { FIN.A = ["r", R(e)]; });
B().then(v => { FIN.B = ["f", R(v)]; }, e => { FIN.B = ["r", R(e)]; });
`)
		return sb.String()
	}
	p := &printer{cap: c.Cap}
	p.stmt(c.Body, false, "  ")
	sb.WriteString("function* GEN() { let x0 = 0, x1 = 0, x2 = 0, ev;")
	if c.Cap {
		sb.WriteString(" PEEK = () => [x0, x1, x2, ev]; const LG = () => LOG([80, x0, x1, x2]);")
	}
	sb.WriteString("\n" + p.sb.String() + "}\nG = GEN();\n")
	return sb.String()
}

func stepCalls(c Case) string {
	var sb strings.Builder
	for _, o := range c.Ops {
		sb.WriteString(fmt.Sprintf("STEP(%q, %d, %d);\n", o.K, o.V, o.Shape))
	}
	return sb.String()
}

// ---------------------------------------------------------------------------------------------------------
// Gallina

func coqZ(z int64) string {
	if z < 0 {
		return fmt.Sprintf("(%d)", z)
	}
	return fmt.Sprintf("%d", z)
}

func coqExp(e *Exp) string {
	switch e.K {
	case "const":
		return "(EConst " + coqZ(e.Z) + ")"
	case "var":
		return fmt.Sprintf("(EVar %d)", e.X)
	case "add":
		return "(EAdd " + coqExp(e.A) + " " + coqExp(e.B) + ")"
	case "call":
		return "(ECall " + coqExp(e.A) + " " + coqExp(e.B) + ")"
	case "spread":
		return "(ECallSpread " + coqExp(e.A) + " " + coqExp(e.B) + ")"
	case "arr":
		return "(EArr " + coqExp(e.A) + " " + coqExp(e.B) + ")"
	case "obj":
		return "(EObj " + coqExp(e.A) + " " + coqExp(e.B) + ")"
	case "tpl":
		return "(ETpl " + coqExp(e.A) + " " + coqExp(e.B) + ")"
	case "yield":
		return "(EYield " + coqExp(e.A) + ")"
	case "ystar":
		return "(EYieldStar " + coqSrc(e.S) + ")"
	case "awaitbad":
		return "(EAwaitBad " + coqZ(e.Z) + ")"
	}
	panic("bad exp")
}

func coqBeh(s string) string {
	switch s {
	case "":
		return "None"
	case "D":
		return "(Some HDone)"
	case "C":
		return "(Some HCont)"
	case "T":
		return "(Some HThrows)"
	default:
		return "(Some HNonObj)"
	}
}

func coqSrc(s *Src) string {
	switch s.K {
	case "gen":
		return "(SrcGen " + coqExp(s.Arg) + " " + coqStmt(s.Body) + ")"
	case "hand":
		h := s.H
		bad := "None"
		if h.BadAt >= 0 {
			b := map[string]string{"T": "HThrows", "N": "HNonObj", "D": "HDone"}[h.BadBeh]
			bad = fmt.Sprintf("(Some (%d, %s))", h.BadAt, b)
		}
		return fmt.Sprintf("(SrcHand (mkHand %d %s %s %s %s %s))", h.N, coqZ(h.Base), coqZ(h.Ret), coqBeh(h.Thr), coqBeh(h.Rtn), bad)
	default:
		return "SrcBad"
	}
}

func coqCmd(c Cmd) string {
	switch c.K {
	case "next":
		return "(RNext (VInt " + coqZ(c.V) + "))"
	case "throw":
		return "(RThrow (VInt " + coqZ(c.V) + "))"
	default:
		return "(RReturn (VInt " + coqZ(c.V) + "))"
	}
}

func coqStmt(s *Stmt) string {
	switch s.K {
	case "skip":
		return "SSkip"
	case "expr":
		return "(SExpr " + coqExp(s.E) + ")"
	case "yield":
		return "(SYield " + coqExp(s.E) + ")"
	case "ystar":
		return "(SYieldStar " + coqSrc(s.S) + ")"
	case "assign":
		return fmt.Sprintf("(SAssign %d %s)", s.X, coqExp(s.E))
	case "destr":
		return fmt.Sprintf("(SDestr %d %s)", s.X, coqExp(s.E))
	case "log":
		return "(SLog " + coqExp(s.E) + ")"
	case "loglocals":
		return "SLogLocals"
	case "seq":
		return "(SSeq " + coqStmt(s.A) + " " + coqStmt(s.B) + ")"
	case "if":
		return "(SIf " + coqExp(s.E) + " " + coqStmt(s.A) + " " + coqStmt(s.B) + ")"
	case "repeat":
		return fmt.Sprintf("(SRepeat %d %d %s)", s.N, s.X, coqStmt(s.A))
	case "trycatch":
		return "(STryCatch " + coqStmt(s.A) + " " + coqStmt(s.B) + ")"
	case "tryfinally":
		return "(STryFinally " + coqStmt(s.A) + " " + coqStmt(s.B) + ")"
	case "trycf":
		return "(STryCF " + coqStmt(s.A) + " " + coqStmt(s.B) + " " + coqStmt(s.C) + ")"
	case "return":
		return "(SReturn " + coqExp(s.E) + ")"
	case "throw":
		return "(SThrow " + coqExp(s.E) + ")"
	case "break":
		return "SBreak"
	case "continue":
		return "SContinue"
	case "forof":
		return fmt.Sprintf("(SForOf %d %s %s)", s.X, coqSrc(s.S), coqStmt(s.A))
	case "reenter":
		return "(SReenter " + coqCmd(*s.Cmd) + ")"
	}
	panic("bad stmt")
}

func coqCmds(ops []Cmd) string {
	var xs []string
	for _, o := range ops {
		xs = append(xs, coqCmd(o))
	}
	if len(xs) == 0 {
		return "(@nil (cmd val))"
	}
	return vh.CoqList(xs)
}

// a value as canonicalised by R() in the prelude
func coqVal(x interface{}) string {
	switch v := x.(type) {
	case float64:
		return "(VInt " + coqZ(int64(v)) + ")"
	case string:
		switch v {
		case "U":
			return "VUndef"
		case "TE":
			return "VTypeErr"
		}
		return "(VObj [VInt (-999)])" // something the model never produces
	case map[string]interface{}:
		for k, ctor := range map[string]string{"a": "VArr", "o": "VObj", "t": "VTpl"} {
			if l, ok := v[k].([]interface{}); ok {
				return "(" + ctor + " " + coqVals(l) + ")"
			}
		}
	}
	return "(VObj [VInt (-998)])"
}

func coqVals(l []interface{}) string {
	var xs []string
	for _, x := range l {
		xs = append(xs, coqVal(x))
	}
	return vh.CoqList(xs)
}

// ---------------------------------------------------------------------------------------------------------
// running

const failTerm = "CFail"

var useNode bool

func runNode(script string) (string, error) {
	cmd := exec.Command("node", "-e", script)
	out, err := cmd.CombinedOutput()
	return strings.TrimSpace(string(out)), err
}

func runCase(c Case, tags []string) vh.Record {
	script := genScript(c)
	var outJSON string
	rec := vh.Record{Case: vh.MustJSON(c), Tags: tags}
	fail := func(msg string) vh.Record {
		rec.Coq = failTerm
		rec.Obs = msg
		rec.Tags = append(rec.Tags, "harness-failure")
		return rec
	}
	if c.Kind == "async" {
		if useNode {
			o, err := runNode(script + "\nsetTimeout(() => console.log(JSON.stringify({log: LOGBUF, fin: FIN})), 0);")
			if err != nil {
				return fail("node: " + o)
			}
			outJSON = o
		} else {
			rt := goja.New()
			if _, err := rt.RunString(script); err != nil {
				return fail("script error: " + err.Error())
			}
			v, err := rt.RunString("JSON.stringify({log: LOGBUF, fin: FIN})")
			if err != nil {
				return fail("script error: " + err.Error())
			}
			outJSON = v.String()
		}
		var res struct {
			Log []interface{}            `json:"log"`
			Fin map[string][]interface{} `json:"fin"`
		}
		if err := json.Unmarshal([]byte(outJSON), &res); err != nil {
			return fail("bad output: " + outJSON)
		}
		fin := func(id string) string {
			f := res.Fin[id]
			if len(f) != 2 {
				return "(ARejected (VObj [VInt (-997)]))" // still pending: never matches
			}
			if f[0] == "f" {
				return "(AFulfilled " + coqVal(f[1]) + ")"
			}
			return "(ARejected " + coqVal(f[1]) + ")"
		}
		rec.Coq = fmt.Sprintf("CAsync %s %s %s %s %s %s %s", coqStmt(c.Body), coqStmt(c.Body2), coqCmds(c.Ops), coqCmds(c.Ops2),
			coqVals(res.Log), fin("A"), fin("B"))
		rec.Obs = trunc(outJSON)
		rec.Nontrivial = len(res.Log) > 2
		return rec
	}
	if useNode {
		o, err := runNode(script + stepCalls(c) + "console.log(JSON.stringify(OUT));")
		if err != nil {
			return fail("node: " + o)
		}
		outJSON = o
	} else {
		rt := goja.New()
		if c.Drive == "go" {
			if _, err := rt.RunString(script); err != nil {
				return fail("script error: " + err.Error())
			}
			step, ok := goja.AssertFunction(rt.Get("STEP"))
			if !ok {
				return fail("no STEP")
			}
			for _, o := range c.Ops {
				if _, err := step(goja.Undefined(), rt.ToValue(o.K), rt.ToValue(o.V), rt.ToValue(o.Shape)); err != nil {
					return fail("STEP error: " + err.Error())
				}
			}
		} else {
			if _, err := rt.RunString(script + stepCalls(c)); err != nil {
				return fail("script error: " + err.Error())
			}
		}
		v, err := rt.RunString("JSON.stringify(OUT)")
		if err != nil {
			return fail("script error: " + err.Error())
		}
		outJSON = v.String()
	}
	var out []struct {
		Log  []interface{} `json:"log"`
		Res  []interface{} `json:"res"`
		Peek []interface{} `json:"peek"`
	}
	if err := json.Unmarshal([]byte(outJSON), &out); err != nil {
		return fail("bad output: " + outJSON)
	}
	var obs []string
	suspended, afterDone := 0, false
	done := false
	for _, o := range out {
		var res string
		if len(o.Res) == 3 && o.Res[0] == "r" {
			d, _ := o.Res[2].(bool)
			res = "(ORes " + coqVal(o.Res[1]) + " " + vh.CoqBool(d) + ")"
			if done {
				afterDone = true
			}
			if d {
				done = true
			} else {
				suspended++
			}
		} else if len(o.Res) == 2 {
			res = "(OThrow " + coqVal(o.Res[1]) + ")"
			if done {
				afterDone = true
			}
			done = true
		} else {
			res = "ODiverge"
		}
		peek := "[]"
		if c.Cap {
			peek = coqVals(o.Peek)
		}
		obs = append(obs, fmt.Sprintf("Obs %s %s %s", coqVals(o.Log), res, peek))
	}
	if afterDone {
		rec.Tags = append(rec.Tags, "call-after-completion")
	}
	if suspended >= 2 {
		rec.Tags = append(rec.Tags, "resumed>=2")
	}
	rec.Coq = fmt.Sprintf("CGen %s %s %s", coqStmt(c.Body), coqCmds(c.Ops), vh.CoqList(obs))
	rec.Obs = trunc(outJSON)
	rec.Nontrivial = suspended >= 1 && len(c.Ops) >= 2
	return rec
}

func trunc(s string) string {
	if len(s) > 1800 {
		return s[:1800] + "…"
	}
	return s
}

func main() {
	m := vh.ParseArgs()
	if m.Args["node"] == "1" || os.Getenv("C09_NODE") == "1" {
		useNode = true
	}
	if m.Cmd == "js" { // development aid: print the script of the cases of a file
		for _, raw := range vh.ReadCases(m.In) {
			var c Case
			if err := json.Unmarshal(raw, &c); err != nil {
				panic(err)
			}
			fmt.Println(genScript(c) + stepCalls(c))
		}
		return
	}
	w := vh.NewWriter(m.Out)
	defer w.Close()
	switch m.Cmd {
	case "gen":
		r := vh.NewRng(m.Seed)
		for i := 0; i < m.N; i++ {
			c, tags := genCase(r)
			vh.Guard(w, vh.MustJSON(c), failTerm, 20, func() vh.Record { return runCase(c, tags) })
		}
	case "replay":
		for _, raw := range vh.ReadCases(m.In) {
			var c Case
			if err := json.Unmarshal(raw, &c); err != nil {
				panic(err)
			}
			vh.Guard(w, raw, failTerm, 20, func() vh.Record { return runCase(c, []string{"replayed"}) })
		}
	}
}
