// C18 correspondence harness: histories on orderedMap through four surfaces.
package main

import (
	"encoding/json"
	"fmt"
	"math"
	"math/big"
	"strings"

	"github.com/dop251/goja"
	"verifharness/vh"
)

type Op struct {
	O  string `json:"o"` // set get has del clear iter next size
	K  int    `json:"k,omitempty"`
	Kv int    `json:"kv,omitempty"` // variant of the key class
	V  int    `json:"v,omitempty"`
	It int    `json:"it,omitempty"`
	// foreach: Body[k] = ops executed inside the callback at its k-th invocation; a body may contain
	// further foreach ops (re-entrant walks of the same Map/Set, depth <= 3)
	Body [][]Op `json:"body,omitempty"`
	// foreach: Abort = n > 0: the callback throws at its n-th invocation (after running Body[n-1]); the
	// exception is caught by whoever called forEach, the walk is abandoned
	Abort int `json:"abort,omitempty"`
}

type Case struct {
	Surface string `json:"surface,omitempty"` // raw map set sym
	Ops     []Op   `json:"ops,omitempty"`
	// Kind "" = a history (Surface, Ops); "hash" = hash agreement on all ordered pairs of Keys
	// ((class, variant) of the pool); "hosteq" = the same on wrappers of Go values (fixed table)
	Kind string   `json:"kind,omitempty"`
	Keys [][2]int `json:"keys,omitempty"`
}

// key classes; class 0 = +0, class 1 = -0 (norm 1 = 0).  Each class has variants that must be
// SameValueZero-equal but are produced differently.
var keyVariants = [][]string{
	{`0`, `(5-5)`, `Number("0")`, `JSON.parse("0")`, `new Float64Array([0])[0]`, `Math.abs(-0)`},
	{`-0`, `(0*-1)`, `Number("-0")`, `JSON.parse("-0")`, `new Float64Array([-0])[0]`, `Math.round(-0.2)`},
	{`1`, `(0.5+0.5)`, `Number("1")`, `JSON.parse("1")`, `new Float64Array([1])[0]`, `(3>>1)`, `Math.floor(1.5)`, `parseInt("1")`, `"1"*1`},
	{`NaN`, `(0/0)`, `Math.sqrt(-1)`, `Number("x")`, `new Float64Array([NaN])[0]`, `parseFloat("q")`},
	{`"a"`, `"éa".slice(1)`, `String.fromCharCode(97)`, `JSON.parse('"a"')`, `"xa".substring(1)`, `GOSTR_A`, `"A".toLowerCase()`},
	{`"abcdefghijklmnopqrstuvwxyz"`, `"abcdefghijklm"+"nopqrstuvwxyz"`, `GOSTR_ALPHA`, `"éabcdefghijklmnopqrstuvwxyz".slice(1)`, `GOSTR_ALPHA_IMPORTED`},
	{`"é€😀 long unicode string"`, `"é€"+"😀 long unicode string"`, `GOSTR_UNI`, `GOSTR_UNI_IMPORTED`, `String.fromCodePoint(0xe9,0x20ac,0x1f600)+" long unicode string"`},
	{`9007199254740992`, `2**53`, `Math.pow(2,53)`, `Number("9007199254740992")`, `4503599627370496*2`, `new Float64Array([9007199254740992])[0]`},
	{`OBJ_A`},
	{`SYM_S`},
	{`1.5`, `(3/2)`, `Number("1.5")`, `JSON.parse("1.5")`, `new Float32Array([1.5])[0]`},
	{`10n`, `BigInt(10)`, `(5n+5n)`, `BigInt("10")`},
	{`true`, `!0`, `(1<2)`},
	{`undefined`, `void 0`, `[][0]`},
	{`""`, `"x".slice(1)`, `String()`, `GOSTR_EMPTY`},
	{`2147483648`, `2**31`, `(1<<30)*2`, `-(-2147483648)`, `Number("2147483648")`},
}

const nClasses = 16

type env struct {
	rt   *goja.Runtime
	vals [][]goja.Value
	syms []goja.Value
}

func newEnv() *env {
	rt := goja.New()
	e := &env{rt: rt}
	rt.Set("GOSTR_A", "a")
	rt.Set("GOSTR_ALPHA", "abcdefghijklmnopqrstuvwxyz")
	rt.Set("GOSTR_ALPHA_IMPORTED", goja.VerifNewImported("abcdefghijklmnopqrstuvwxyz"))
	rt.Set("GOSTR_UNI", "é€\U0001F600 long unicode string")
	rt.Set("GOSTR_UNI_IMPORTED", goja.VerifNewImported("é€\U0001F600 long unicode string"))
	rt.Set("GOSTR_EMPTY", "")
	if _, err := rt.RunString(`var OBJ_A = {}; var SYM_S = Symbol("SYM_S_DESC"); var SYMS = []; for (var i = 0; i < 16; i++) SYMS.push(Symbol("k"+i));`); err != nil {
		panic(err)
	}
	for _, vs := range keyVariants {
		var row []goja.Value
		for _, src := range vs {
			v, err := rt.RunString("(" + src + ")")
			if err != nil {
				panic(fmt.Sprintf("%s: %v", src, err))
			}
			row = append(row, v)
		}
		e.vals = append(e.vals, row)
	}
	arr := rt.Get("SYMS").ToObject(rt)
	for i := 0; i < 16; i++ {
		e.syms = append(e.syms, arr.Get(fmt.Sprint(i)))
	}
	return e
}

// classOf identifies a key value returned by the implementation, independently of goja's own
// equality: by its exported Go value.
func (e *env) classOf(v goja.Value, surface string) int {
	if v == nil {
		return -1
	}
	if surface == "sym" {
		for i, s := range e.syms {
			if s == v {
				return i
			}
		}
		return -2
	}
	switch x := v.Export().(type) {
	case int64:
		switch x {
		case 0:
			return 0
		case 1:
			return 2
		case 9007199254740992:
			return 7
		case 2147483648:
			return 15
		}
	case float64:
		switch {
		case x == 0 && math.Signbit(x):
			return 1
		case x == 0:
			return 0
		case x == 1:
			return 2
		case x != x:
			return 3
		case x == 9007199254740992:
			return 7
		case x == 1.5:
			return 10
		case x == 2147483648:
			return 15
		}
	case string:
		switch x {
		case "a":
			return 4
		case "abcdefghijklmnopqrstuvwxyz":
			return 5
		case "é€\U0001F600 long unicode string":
			return 6
		case "":
			return 14
		}
	case bool:
		if x {
			return 12
		}
	case nil:
		if goja.IsUndefined(v) {
			return 13
		}
	}
	if v == e.vals[8][0] {
		return 8
	}
	if v == e.vals[9][0] {
		return 9
	}
	if strings.HasPrefix(goja.VerifRepr(v), "bigint") && v.String() == "10" {
		return 11
	}
	return -2
}

// exportKey turns an exported Go key back into a value of the pool (objects, symbols and BigInts
// lose identity on export: they are recognised by their exported shape).
func (e *env) exportKey(x interface{}) goja.Value {
	switch t := x.(type) {
	case nil:
		return goja.Undefined()
	case map[string]interface{}:
		return e.vals[8][0]
	case *big.Int:
		if t.Int64() == 10 {
			return e.vals[11][0]
		}
	case string:
		if t == "SYM_S_DESC" {
			return e.vals[9][0]
		}
	}
	return e.rt.ToValue(x)
}

func (e *env) key(c Case, op Op) goja.Value {
	if c.Surface == "sym" {
		return e.syms[op.K%16]
	}
	row := e.vals[op.K%nClasses]
	return row[op.Kv%len(row)]
}

func genHashCase(r *vh.Rng) Case {
	c := Case{Kind: "hash"}
	nc := 2 + r.Intn(3)
	seen := map[int]bool{}
	var classes []int
	if r.Chance(40) {
		classes = append(classes, 0, 1)
		seen[0], seen[1] = true, true
	}
	for len(classes) < nc {
		k := r.Intn(nClasses)
		if !seen[k] {
			seen[k] = true
			classes = append(classes, k)
		}
	}
	for _, k := range classes {
		for v := range keyVariants[k] {
			c.Keys = append(c.Keys, [2]int{k, v})
		}
	}
	return c
}

// genForeach: a forEach whose callback bodies mutate the collection and, down to depth 3, start further
// forEach walks of the same collection (complete, or abandoned by a throw at a random invocation).
func genForeach(r *vh.Rng, pool []int, depth int) Op {
	op := Op{O: "foreach"}
	if depth > 1 && r.Chance(40) || depth == 1 && r.Chance(8) {
		op.Abort = 1 + r.Intn(4)
	}
	slots := 1 + r.Intn(6)
	nested := 0
	for sl := 0; sl < slots; sl++ {
		var body []Op
		for b := r.Intn(4); b > 0; b-- {
			kk := pool[r.Intn(len(pool))]
			nestW := 0
			if depth < 3 && nested < 2 {
				nestW = 4
			}
			switch r.Pick(5, 5, 1, 1, nestW) {
			case 0:
				body = append(body, Op{O: "set", K: kk, Kv: r.Intn(9), V: r.Intn(1000)})
			case 1:
				body = append(body, Op{O: "del", K: kk, Kv: r.Intn(9)})
			case 2:
				body = append(body, Op{O: "clear"})
			case 3:
				body = append(body, Op{O: "has", K: kk})
			case 4:
				body = append(body, genForeach(r, pool, depth+1))
				nested++
			}
		}
		op.Body = append(op.Body, body)
	}
	return op
}

func genCase(r *vh.Rng) Case {
	switch r.Pick(1170, 30, 3) {
	case 1:
		return genHashCase(r)
	case 2:
		return Case{Kind: "hosteq"}
	}
	c := Case{Surface: []string{"raw", "map", "set", "sym"}[r.Pick(4, 4, 2, 1)]}
	n := 1 + r.Intn(60)
	// restrict the pool per case so that collisions are frequent
	poolSize := 2 + r.Intn(11)
	pool := make([]int, poolSize)
	for i := range pool {
		pool[i] = r.Intn(nClasses)
	}
	if r.Chance(50) {
		pool[0], pool[1] = 0, 1 // +0 / -0 pair
	}
	nIt := 0
	clearW := 2
	if r.Chance(30) {
		clearW = 8
	}
	for i := 0; i < n; i++ {
		k := pool[r.Intn(poolSize)]
		kv := r.Intn(9)
		var op Op
		itW := 6
		if nIt >= 3 {
			itW = 0
		}
		nextW := 0
		if nIt > 0 {
			nextW = 30
		}
		feW := 0
		if (c.Surface == "map" || c.Surface == "set") && nIt < 3 {
			feW = 4
		}
		switch r.Pick(30, 8, 8, 18, clearW, itW, nextW, 4, feW) {
		case 0:
			op = Op{O: "set", K: k, Kv: kv, V: r.Intn(1000)}
		case 1:
			op = Op{O: "get", K: k, Kv: kv}
		case 2:
			op = Op{O: "has", K: k, Kv: kv}
		case 3:
			op = Op{O: "del", K: k, Kv: kv}
		case 4:
			op = Op{O: "clear"}
		case 5:
			op = Op{O: "iter"}
			nIt++
		case 6:
			op = Op{O: "next", It: r.Intn(nIt)}
		case 7:
			op = Op{O: "size"}
		case 8:
			op = genForeach(r, pool, 1)
			nIt++
		}
		c.Ops = append(c.Ops, op)
	}
	return c
}

// ---------------------------------------------------------------------------------------------

type surface interface {
	set(k, v goja.Value)
	get(k goja.Value) (goja.Value, bool) // ok=false: operation not available on this surface
	has(k goja.Value) bool
	del(k goja.Value) bool
	clear() bool
	iter() int
	next(it int) (k, v goja.Value, ok bool)
	size() int
}

type rawS struct {
	m   *goja.VerifOrderedMap
	its []*goja.VerifOrderedMapIter
}

func (s *rawS) set(k, v goja.Value)                 { s.m.Set(k, v) }
func (s *rawS) get(k goja.Value) (goja.Value, bool) { return s.m.Get(k), true }
func (s *rawS) has(k goja.Value) bool               { return s.m.Has(k) }
func (s *rawS) del(k goja.Value) bool               { return s.m.Remove(k) }
func (s *rawS) clear() bool                         { s.m.Clear(); return true }
func (s *rawS) iter() int                           { s.its = append(s.its, s.m.NewIter()); return len(s.its) - 1 }
func (s *rawS) next(it int) (goja.Value, goja.Value, bool) {
	return s.its[it].Next()
}
func (s *rawS) size() int { return s.m.Size() }

type jsS struct {
	rt    *goja.Runtime
	isSet bool
	obj   *goja.Object
	its   []*goja.Object
	kinds []int
	r     *vh.Rng
}

func (s *jsS) call(o *goja.Object, name string, args ...goja.Value) goja.Value {
	f, ok := goja.AssertFunction(o.Get(name))
	if !ok {
		panic("not a function: " + name)
	}
	v, err := f(o, args...)
	if err != nil {
		panic(err)
	}
	return v
}
func (s *jsS) set(k, v goja.Value) {
	if s.isSet {
		s.call(s.obj, "add", k)
	} else {
		s.call(s.obj, "set", k, v)
	}
}
func (s *jsS) get(k goja.Value) (goja.Value, bool) {
	if s.isSet {
		return nil, false
	}
	v := s.call(s.obj, "get", k)
	if goja.IsUndefined(v) {
		return nil, true
	}
	return v, true
}
func (s *jsS) has(k goja.Value) bool { return s.call(s.obj, "has", k).ToBoolean() }
func (s *jsS) del(k goja.Value) bool { return s.call(s.obj, "delete", k).ToBoolean() }
func (s *jsS) clear() bool           { s.call(s.obj, "clear"); return true }
func (s *jsS) iter() int {
	kind := s.r.Intn(4)
	name := []string{"entries", "keys", "values", "entries"}[kind]
	var it *goja.Object
	if kind == 3 {
		symIt := s.obj.GetSymbol(goja.SymIterator)
		f, _ := goja.AssertFunction(symIt)
		v, err := f(s.obj)
		if err != nil {
			panic(err)
		}
		it = v.ToObject(s.rt)
		if s.isSet {
			kind = 2
		} else {
			kind = 0
		}
	} else {
		it = s.call(s.obj, name).ToObject(s.rt)
	}
	s.its = append(s.its, it)
	s.kinds = append(s.kinds, kind)
	return len(s.its) - 1
}

// next returns k and/or v (nil when the iterator kind does not expose that part)
func (s *jsS) next(it int) (goja.Value, goja.Value, bool) {
	res := s.call(s.its[it], "next").ToObject(s.rt)
	if res.Get("done").ToBoolean() {
		return nil, nil, false
	}
	val := res.Get("value")
	switch s.kinds[it] {
	case 0:
		pair := val.ToObject(s.rt)
		return pair.Get("0"), pair.Get("1"), true
	case 1:
		return val, nil, true
	default:
		if s.isSet {
			return val, nil, true
		}
		return nil, val, true
	}
}
func (s *jsS) size() int { return int(s.obj.Get("size").ToInteger()) }

type symS struct {
	rt   *goja.Runtime
	obj  *goja.Object
	snap [][]goja.Value
	pos  []int
}

func (s *symS) set(k, v goja.Value) { s.obj.SetSymbol(k.(*goja.Symbol), v) }
func (s *symS) get(k goja.Value) (goja.Value, bool) {
	v := s.obj.GetSymbol(k.(*goja.Symbol))
	if v == nil || goja.IsUndefined(v) {
		return nil, true
	}
	return v, true
}
func (s *symS) has(k goja.Value) bool {
	f, _ := goja.AssertFunction(s.rt.Get("Object").ToObject(s.rt).Get("prototype").ToObject(s.rt).Get("hasOwnProperty"))
	v, err := f(s.obj, k)
	if err != nil {
		panic(err)
	}
	return v.ToBoolean()
}
func (s *symS) del(k goja.Value) bool {
	had := s.has(k)
	if err := s.obj.DeleteSymbol(k.(*goja.Symbol)); err != nil {
		panic(err)
	}
	return had
}
func (s *symS) clear() bool { return false }
func (s *symS) iter() int   { return -1 } // live iterators are not available; see dump
func (s *symS) next(int) (goja.Value, goja.Value, bool) {
	return nil, nil, false
}
func (s *symS) size() int { return len(s.obj.Symbols()) }

// ---------------------------------------------------------------------------------------------

var symShift = 0

func coqKey(k int) string { return fmt.Sprintf("%d%%N", k+symShift) }

// ---------------------------------------------------------------------------------------------
// hash agreement

type hostT struct{ X int }

type dynT struct{ n int }

func (d *dynT) Get(string) goja.Value       { return goja.Undefined() }
func (d *dynT) Set(string, goja.Value) bool { return false }
func (d *dynT) Has(string) bool             { return false }
func (d *dynT) Delete(string) bool          { return true }
func (d *dynT) Keys() []string              { return nil }

// jsvalTerm renders v as a Gallina jsval (constructors of coq/C18/Run.v) from its internal
// representation (VerifRepr) and its content; objects and symbols get the id the caller assigns.
func jsvalTerm(v goja.Value, id int, host int) string {
	nlist := func(xs []uint64) string {
		items := make([]string, len(xs))
		for i, x := range xs {
			items[i] = vh.CoqN(x)
		}
		return vh.CoqList(items)
	}
	bytesOf := func(s string) []uint64 {
		var out []uint64
		for i := 0; i < len(s); i++ {
			out = append(out, uint64(s[i]))
		}
		return out
	}
	rep := goja.VerifRepr(v)
	switch {
	case strings.HasPrefix(rep, "int:"):
		var i int64
		fmt.Sscanf(rep, "int:%d", &i)
		return fmt.Sprintf("(JInt %s)", vh.CoqZ(i))
	case strings.HasPrefix(rep, "float:"):
		var b uint64
		fmt.Sscanf(rep, "float:%x", &b)
		return fmt.Sprintf("(JFlt %d%%Z)", b)
	case rep == "bool":
		return fmt.Sprintf("(JBool %s)", vh.CoqBool(v.ToBoolean()))
	case rep == "undefined":
		return "JUndef"
	case rep == "null":
		return "JNull"
	case rep == "ascii":
		return fmt.Sprintf("(JAsc %s)", nlist(bytesOf(v.String())))
	case rep == "unicode":
		sv := v.(goja.String)
		var us []uint64
		for i := 0; i < sv.Length(); i++ {
			us = append(us, uint64(sv.CharAt(i)))
		}
		return fmt.Sprintf("(JUni %s)", nlist(us))
	case strings.HasPrefix(rep, "imported:"):
		return fmt.Sprintf("(JImp %s %s)", nlist(bytesOf(v.String())), vh.CoqBool(rep != "imported:unscanned"))
	case rep == "sym":
		return fmt.Sprintf("(JSym %d%%N)", id)
	case rep == "bigint":
		bi, _ := new(big.Int).SetString(v.String(), 10)
		if bi == nil || !bi.IsInt64() {
			panic("bigint out of range: " + v.String())
		}
		return fmt.Sprintf("(JBig %s)", vh.CoqZ(bi.Int64()))
	case strings.HasPrefix(rep, "obj:"):
		if host >= 0 {
			return fmt.Sprintf("(JObj %d%%N (Some %d%%N))", id, host)
		}
		return fmt.Sprintf("(JObj %d%%N None)", id)
	}
	panic("unrenderable value: " + rep)
}

// gojaNorm returns the key as orderedMap.set stores it: goja's own normalisation.
func gojaNorm(v goja.Value) goja.Value {
	m := goja.VerifNewOrderedMap()
	m.Set(v, v)
	k, _, ok := m.NewIter().Next()
	if !ok {
		panic("set did not store an entry")
	}
	return k
}

func runHashCase(c Case) vh.Record {
	e := newEnv()
	type hv struct {
		v, n  goja.Value
		class int
		rep   string
	}
	var vals []hv
	var terms []string
	tags := map[string]bool{"kind:" + c.Kind: true}
	add := func(v goja.Value, class, id, host int) {
		rep := goja.VerifRepr(v)
		terms = append(terms, fmt.Sprintf("(%d%%N, %s)", class, jsvalTerm(v, id, host)))
		vals = append(vals, hv{v: v, class: class, rep: rep})
		if i := strings.IndexByte(rep, ':'); i >= 0 && !strings.HasPrefix(rep, "imported") {
			rep = rep[:i]
		}
		tags["repr:"+rep] = true
	}
	if c.Kind == "hosteq" {
		t1, t2 := &hostT{1}, &hostT{2}
		sl := &[]interface{}{1, 2}
		add(e.rt.ToValue(t1), 16, 100, 1)
		add(e.rt.ToValue(t1), 16, 101, 1)
		add(e.rt.ToValue(t2), 17, 102, 2)
		add(e.rt.ToValue(sl), 18, 103, 3)
		add(e.rt.ToValue(sl), 18, 104, 3)
		add(e.vals[8][0], 8, 0, -1)
		// the template objects of one site; of another site
		tv, err := e.rt.RunString("function C18tg(s){return s}; function C18ft(){return C18tg`x`}; [C18ft(), C18ft(), (function(){return C18tg`x`})()]")
		if err != nil {
			panic(err)
		}
		ta := tv.ToObject(e.rt)
		add(ta.Get("0"), 19, 105, 4)
		add(ta.Get("1"), 19, 106, 4)
		add(ta.Get("2"), 20, 107, 5)
		// two DynamicObjects over one Go value; over another
		d1, d2 := &dynT{}, &dynT{}
		add(e.rt.NewDynamicObject(d1), 21, 108, 6)
		add(e.rt.NewDynamicObject(d1), 21, 109, 6)
		add(e.rt.NewDynamicObject(d2), 22, 110, 7)
		for i, x := range vals {
			if i != 5 && !strings.Contains(x.rep, "objectGoReflect") && !strings.Contains(x.rep, "objectGoSlice") &&
				!strings.Contains(x.rep, "taggedTemplateArray") && !strings.Contains(x.rep, "dynamicObject") {
				panic("not a Go-value wrapper: " + x.rep)
			}
		}
	} else {
		for _, kv := range c.Keys {
			row := e.vals[((kv[0]%nClasses)+nClasses)%nClasses]
			v := row[((kv[1]%len(row))+len(row))%len(row)]
			add(v, ((kv[0]%nClasses)+nClasses)%nClasses, 0, -1)
		}
	}
	for i := range vals {
		vals[i].n = gojaNorm(vals[i].v)
	}
	var obs []string
	nSame, nHeq, nPairs, nontrivial := 0, 0, 0, false
	var bad []string
	for i, a := range vals {
		var row []string
		for j, b := range vals {
			raw := goja.VerifSameAs(a.v, b.v)
			same := goja.VerifSameAs(a.n, b.n)
			heq := goja.VerifHashEq(a.n, b.n)
			code := 0
			if raw {
				code += 4
			}
			if same {
				code += 2
			}
			if heq {
				code++
			}
			row = append(row, fmt.Sprint(code))
			nPairs++
			if same {
				nSame++
				if i != j && a.rep != b.rep {
					nontrivial = true
					tags["same-across-representations"] = true
				}
				if !heq && len(bad) < 40 {
					bad = append(bad, fmt.Sprintf("%d,%d", i, j))
				}
			}
			if heq {
				nHeq++
			}
			if a.class != b.class {
				tags["cross-class-pair"] = true
			}
		}
		obs = append(obs, vh.CoqList(row))
	}
	var tl []string
	for t := range tags {
		tl = append(tl, t)
	}
	return vh.Record{
		Case: vh.MustJSON(c),
		Coq:  fmt.Sprintf("mkHash %s %s", vh.CoqList(terms), vh.CoqList(obs)),
		Obs: fmt.Sprintf("kind=%s vals=%d pairs=%d same=%d hasheq=%d same_but_hash_differs=[%s]",
			c.Kind, len(vals), nPairs, nSame, nHeq, strings.Join(bad, " ")),
		Tags:       tl,
		Nontrivial: nontrivial,
	}
}

func runCase(c Case, seed uint64) vh.Record {
	if c.Kind == "hash" || c.Kind == "hosteq" {
		return runHashCase(c)
	}
	e := newEnv()
	rng := vh.NewRng(seed)
	var s surface
	switch c.Surface {
	case "raw":
		s = &rawS{m: goja.VerifNewOrderedMap()}
	case "map":
		v, _ := e.rt.RunString("new Map()")
		s = &jsS{rt: e.rt, obj: v.ToObject(e.rt), r: rng}
	case "set":
		v, _ := e.rt.RunString("new Set()")
		s = &jsS{rt: e.rt, obj: v.ToObject(e.rt), isSet: true, r: rng}
	case "sym":
		s = &symS{rt: e.rt, obj: e.rt.NewObject()}
	}
	symShift = 0
	if c.Surface == "sym" {
		symShift = 2 // symbols are never normalised: keep them away from the +0/-0 classes
	}
	isSet := c.Surface == "set"
	var ops, outs, obs []string
	tags := map[string]bool{"surface:" + c.Surface: true}
	nIters := 0
	liveIter := false
	nontrivial := false
	emitEntry := func(k, v goja.Value, ok bool, kindKnown bool) string {
		if !ok {
			return "REnd"
		}
		ks, vs := "None", "None"
		if k != nil {
			ks = fmt.Sprintf("(Some %s)", coqKey(e.classOf(k, c.Surface)))
			if e.classOf(k, c.Surface) < 0 {
				ks = "(Some 999%N)"
			}
		}
		if v != nil && !isSet {
			vs = fmt.Sprintf("(Some %d%%N)", v.ToInteger())
		}
		return fmt.Sprintf("(REnt %s %s)", ks, vs)
	}
	doNext := func(it int) bool {
		k, v, ok := s.next(it)
		ops = append(ops, fmt.Sprintf("(ONext %d)", it))
		o := emitEntry(k, v, ok, true)
		outs = append(outs, o)
		obs = append(obs, o)
		return ok
	}
	feIters := map[int]bool{}
	feDepth := 0
	var execOp func(op Op)
	execOp = func(op Op) {
		switch op.O {
		case "foreach":
			js, ok := s.(*jsS)
			if !ok {
				return
			}
			id := nIters
			nIters++
			feIters[id] = true
			js.its = append(js.its, nil)
			js.kinds = append(js.kinds, 0)
			ops = append(ops, "ONewIter")
			outs = append(outs, fmt.Sprintf("(RN %d)", id))
			call := 0
			wasLive := liveIter
			liveIter = true
			aborted := false
			feDepth++
			if feDepth > 1 {
				tags["nested-forEach"] = true
				nontrivial = true
			}
			cb := func(fc goja.FunctionCall) goja.Value {
				ops = append(ops, fmt.Sprintf("(ONext %d)", id))
				var o string
				if isSet {
					o = emitEntry(fc.Argument(1), nil, true, true)
				} else {
					o = emitEntry(fc.Argument(1), fc.Argument(0), true, true)
				}
				outs = append(outs, o)
				obs = append(obs, o)
				if call < len(op.Body) {
					for _, sub := range op.Body[call] {
						if sub.O == "foreach" && feDepth >= 3 || sub.O == "iter" || sub.O == "next" {
							continue
						}
						execOp(sub)
					}
				}
				call++
				if call > 300 {
					panic("forEach does not terminate")
				}
				if op.Abort > 0 && call == op.Abort {
					aborted = true
					panic(e.rt.NewTypeError("C18 abandon this walk"))
				}
				return goja.Undefined()
			}
			fe, ok := goja.AssertFunction(js.obj.Get("forEach"))
			if !ok {
				panic("forEach is not a function")
			}
			_, err := fe(js.obj, e.rt.ToValue(cb))
			feDepth--
			liveIter = wasLive
			tags["forEach"] = true
			if err != nil {
				if !aborted {
					panic(err)
				}
				// the walk was abandoned by the exception: its cursor is never advanced again
				if feDepth > 0 {
					tags["nested-forEach-aborted"] = true
				} else {
					tags["forEach-aborted"] = true
				}
				return
			}
			ops = append(ops, fmt.Sprintf("(ONext %d)", id))
			outs = append(outs, "REnd")
		case "set":
			k := e.key(c, op)
			val := op.V
			if isSet {
				val = 0
			}
			s.set(k, e.rt.ToValue(val))
			ops = append(ops, fmt.Sprintf("(OSet %s %d%%N)", coqKey(op.K%nClasses), val))
			outs = append(outs, "RU")
			if liveIter {
				tags["set-during-iteration"] = true
			}
		case "get":
			v, ok := s.get(e.key(c, op))
			if !ok {
				return
			}
			ops = append(ops, fmt.Sprintf("(OGet %s)", coqKey(op.K%nClasses)))
			if v == nil {
				outs = append(outs, "(RV None)")
			} else {
				outs = append(outs, fmt.Sprintf("(RV (Some %d%%N))", v.ToInteger()))
			}
		case "has":
			b := s.has(e.key(c, op))
			ops = append(ops, fmt.Sprintf("(OHas %s)", coqKey(op.K%nClasses)))
			outs = append(outs, fmt.Sprintf("(RB %s)", vh.CoqBool(b)))
		case "del":
			b := s.del(e.key(c, op))
			ops = append(ops, fmt.Sprintf("(ODel %s)", coqKey(op.K%nClasses)))
			outs = append(outs, fmt.Sprintf("(RB %s)", vh.CoqBool(b)))
			if b && liveIter {
				tags["delete-during-iteration"] = true
				nontrivial = true
			}
		case "clear":
			if !s.clear() {
				return
			}
			ops = append(ops, "OClear")
			outs = append(outs, "RU")
			if liveIter {
				tags["clear-during-iteration"] = true
				nontrivial = true
			}
		case "iter":
			if s.iter() < 0 {
				return
			}
			ops = append(ops, "ONewIter")
			outs = append(outs, fmt.Sprintf("(RN %d)", nIters))
			nIters++
			liveIter = true
		case "next":
			if op.It >= nIters || feIters[op.It] {
				return
			}
			doNext(op.It)
		case "size":
			ops = append(ops, "OSize")
			outs = append(outs, fmt.Sprintf("(RN %d)", s.size()))
		}
		if op.O == "set" || op.O == "get" || op.O == "has" || op.O == "del" {
			if op.Kv%len(e.vals[op.K%nClasses]) != 0 && c.Surface != "sym" {
				tags["variant-key"] = true
			}
		}
	}
	for _, op := range c.Ops {
		execOp(op)
	}
	// final dump: drain every live iterator, then a fresh full iteration (or the ownKeys snapshot)
	for it := 0; it < nIters; it++ {
		if feIters[it] {
			continue
		}
		for i := 0; i < 200 && doNext(it); i++ {
		}
		doNext(it) // a finished iterator stays finished
	}
	switch c.Surface {
	case "sym":
		ss := s.(*symS)
		ops = append(ops, "ONewIter")
		outs = append(outs, fmt.Sprintf("(RN %d)", nIters))
		for _, sym := range ss.obj.Symbols() {
			ops = append(ops, fmt.Sprintf("(ONext %d)", nIters))
			outs = append(outs, emitEntry(sym, ss.obj.GetSymbol(sym), true, true))
		}
		ops = append(ops, fmt.Sprintf("(ONext %d)", nIters))
		outs = append(outs, "REnd")
	case "map", "set":
		// Go-side export must list the live entries in insertion order
		js := s.(*jsS)
		ops = append(ops, "ONewIter")
		outs = append(outs, fmt.Sprintf("(RN %d)", nIters))
		exp := js.obj.Export()
		if isSet {
			for _, k := range exp.([]interface{}) {
				ops = append(ops, fmt.Sprintf("(ONext %d)", nIters))
				outs = append(outs, emitEntry(e.exportKey(k), nil, true, true))
			}
		} else {
			for _, kv := range exp.([][2]interface{}) {
				ops = append(ops, fmt.Sprintf("(ONext %d)", nIters))
				outs = append(outs, emitEntry(e.exportKey(kv[0]), e.rt.ToValue(kv[1]), true, true))
			}
		}
		ops = append(ops, fmt.Sprintf("(ONext %d)", nIters))
		outs = append(outs, "REnd")
		tags["go-export"] = true
	default:
		it := s.iter()
		ops = append(ops, "ONewIter")
		outs = append(outs, fmt.Sprintf("(RN %d)", nIters))
		nIters++
		for i := 0; i < 200 && doNext(it); i++ {
		}
	}
	ops = append(ops, "OSize")
	outs = append(outs, fmt.Sprintf("(RN %d)", s.size()))
	var tl []string
	for t := range tags {
		tl = append(tl, t)
	}
	return vh.Record{
		Case:       vh.MustJSON(c),
		Coq:        fmt.Sprintf("mkCase %s %s", vh.CoqList(ops), vh.CoqList(outs)),
		Obs:        strings.Join(outs, " "),
		Tags:       tl,
		Nontrivial: nontrivial,
	}
}

const failTerm = "mkCase [] [RU]"

func main() {
	m := vh.ParseArgs()
	w := vh.NewWriter(m.Out)
	defer w.Close()
	switch m.Cmd {
	case "gen":
		r := vh.NewRng(m.Seed)
		for i := 0; i < m.N; i++ {
			c := genCase(r)
			sd := m.Seed + uint64(i)
			vh.Guard(w, vh.MustJSON(c), failTerm, 20, func() vh.Record { return runCase(c, sd) })
		}
	case "replay":
		for i, raw := range vh.ReadCases(m.In) {
			var c Case
			if err := json.Unmarshal(raw, &c); err != nil {
				panic(err)
			}
			sd := m.Seed + uint64(i)
			vh.Guard(w, raw, failTerm, 20, func() vh.Record { return runCase(c, sd) })
		}
	}
}
