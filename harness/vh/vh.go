// Package vh: shared plumbing of the correspondence harness (PRNG, case records, CLI).
package vh

import (
	"bufio"
	"encoding/json"
	"flag"
	"fmt"
	"os"
	"strings"
	"time"
)

// Rng is splitmix64; every random choice of a run derives from one state.
type Rng struct{ s uint64 }

// NewRng scrambles the seed first: consecutive seeds (the driver gives parallel generator processes
// seed*1000+j) must not yield shifted copies of one stream.
func NewRng(seed uint64) *Rng {
	z := seed + 0x9E3779B97F4A7C15
	z = (z ^ (z >> 30)) * 0xBF58476D1CE4E5B9
	z = (z ^ (z >> 27)) * 0x94D049BB133111EB
	z = z ^ (z >> 31)
	z = (z ^ 0xD1B54A32D192ED03) * 0xAEF17502108EF2D9
	return &Rng{s: z ^ (z >> 29)}
}

func (r *Rng) U64() uint64 {
	r.s += 0x9E3779B97F4A7C15
	z := r.s
	z = (z ^ (z >> 30)) * 0xBF58476D1CE4E5B9
	z = (z ^ (z >> 27)) * 0x94D049BB133111EB
	return z ^ (z >> 31)
}
func (r *Rng) Intn(n int) int {
	if n <= 0 {
		return 0
	}
	return int(r.U64() % uint64(n))
}
func (r *Rng) Bool() bool        { return r.U64()&1 == 1 }
func (r *Rng) Chance(p int) bool { return r.Intn(100) < p }
func (r *Rng) Fork() *Rng        { return &Rng{s: r.U64()} }

// Pick chooses an index according to integer weights.
func (r *Rng) Pick(weights ...int) int {
	t := 0
	for _, w := range weights {
		t += w
	}
	x := r.Intn(t)
	for i, w := range weights {
		if x < w {
			return i
		}
		x -= w
	}
	return len(weights) - 1
}

// Record is one executed case: the case itself (replayable JSON), the Gallina term of the
// case together with the implementation's observation, and coverage tags.
type Record struct {
	Case       json.RawMessage `json:"case"`
	Coq        string          `json:"coq"`
	Obs        string          `json:"obs"`
	Tags       []string        `json:"tags"`
	Nontrivial bool            `json:"nontrivial"`
	Note       string          `json:"note,omitempty"`
}

type Mode struct {
	Cmd  string // gen | replay
	Seed uint64
	N    int
	In   string
	Out  string
	Tier string
	Args map[string]string
}

func ParseArgs() Mode {
	if len(os.Args) < 2 {
		fmt.Fprintln(os.Stderr, "usage: <harness> gen|replay [-seed S] [-n N] [-i in.jsonl] -o out.jsonl")
		os.Exit(2)
	}
	m := Mode{Cmd: os.Args[1], Args: map[string]string{}}
	fs := flag.NewFlagSet(os.Args[1], flag.ExitOnError)
	fs.Uint64Var(&m.Seed, "seed", 1, "seed")
	fs.IntVar(&m.N, "n", 100, "number of cases")
	fs.StringVar(&m.In, "i", "", "input jsonl (replay)")
	fs.StringVar(&m.Out, "o", "", "output jsonl")
	fs.StringVar(&m.Tier, "tier", "quick", "tier")
	extra := fs.String("x", "", "extra k=v,k=v")
	fs.Parse(os.Args[2:])
	for _, kv := range strings.Split(*extra, ",") {
		if i := strings.IndexByte(kv, '='); i > 0 {
			m.Args[kv[:i]] = kv[i+1:]
		}
	}
	return m
}

type Writer struct {
	f *os.File
	w *bufio.Writer
}

func NewWriter(path string) *Writer {
	f, err := os.Create(path)
	if err != nil {
		panic(err)
	}
	return &Writer{f: f, w: bufio.NewWriterSize(f, 1<<20)}
}
func (w *Writer) Put(r Record) {
	b, err := json.Marshal(r)
	if err != nil {
		panic(err)
	}
	w.w.Write(b)
	w.w.WriteByte('\n')
}
func (w *Writer) Close() { w.w.Flush(); w.f.Close() }

// ReadCases reads the "case" field of every line of a jsonl file.
func ReadCases(path string) []json.RawMessage {
	f, err := os.Open(path)
	if err != nil {
		panic(err)
	}
	defer f.Close()
	var out []json.RawMessage
	sc := bufio.NewScanner(f)
	sc.Buffer(make([]byte, 1<<20), 1<<28)
	for sc.Scan() {
		line := sc.Bytes()
		if len(line) == 0 {
			continue
		}
		var rec struct {
			Case json.RawMessage `json:"case"`
		}
		if err := json.Unmarshal(line, &rec); err != nil {
			panic(err)
		}
		out = append(out, append(json.RawMessage(nil), rec.Case...))
	}
	return out
}

// MustJSON marshals v.
func MustJSON(v interface{}) json.RawMessage {
	b, err := json.Marshal(v)
	if err != nil {
		panic(err)
	}
	return b
}

// CoqList renders a Gallina list literal.
func CoqList(items []string) string {
	return "[" + strings.Join(items, "; ") + "]"
}

func CoqBool(b bool) string {
	if b {
		return "true"
	}
	return "false"
}

// CoqZ renders an integer as a Z literal.
func CoqZ(i int64) string {
	if i < 0 {
		return fmt.Sprintf("(%d)%%Z", i)
	}
	return fmt.Sprintf("%d%%Z", i)
}

func CoqN(i uint64) string { return fmt.Sprintf("%d%%N", i) }

// Guard runs one case under a watchdog and a recover.  A Go panic escaping the case or a hang is
// itself an observation ("HOSTPANIC"/"HANG"): the record then carries failTerm (a Gallina term
// of the case type that can never match) so that the comparison reports it.  After a hang the
// process cannot continue: the record is flushed and the process exits with status 3.
func Guard(w *Writer, c json.RawMessage, failTerm string, timeoutSec int, f func() Record) {
	done := make(chan Record, 1)
	go func() {
		defer func() {
			if x := recover(); x != nil {
				done <- Record{Case: c, Coq: failTerm, Obs: fmt.Sprintf("HOSTPANIC: %v", x), Tags: []string{"hostpanic"}}
			}
		}()
		done <- f()
	}()
	select {
	case r := <-done:
		w.Put(r)
	case <-time.After(time.Duration(timeoutSec) * time.Second):
		w.Put(Record{Case: c, Coq: failTerm, Obs: "HANG", Tags: []string{"hang"}})
		w.Close()
		fmt.Fprintln(os.Stderr, "HANG on case", string(c))
		os.Exit(3)
	}
}
