//go:build verif

package goja

// Add-only accessors for the C20 (RegExp) correspondence check. Coverage / capture ranges only.

// VerifRegexpEngine reports which engine(s) a RegExp object currently holds:
// "re2", "regexp2", "re2+regexp2" (regexp2 created lazily for start != 0), or "" if v is not a RegExp.
func VerifRegexpEngine(v Value) string {
	o, ok := v.(*Object)
	if !ok {
		return ""
	}
	rx, ok := o.self.(*regexpObject)
	if !ok || rx.pattern == nil {
		return ""
	}
	switch {
	case rx.pattern.regexpWrapper != nil && rx.pattern.regexp2Wrapper != nil:
		return "re2+regexp2"
	case rx.pattern.regexpWrapper != nil:
		return "re2"
	case rx.pattern.regexp2Wrapper != nil:
		return "regexp2"
	}
	return ""
}

// VerifRegexpFind runs the pattern's single-match primitive from position start and returns the raw
// index vector (UTF-16 unit offsets after goja's position mapping; -1 = group did not participate).
func VerifRegexpFind(v Value, s Value, start int) []int {
	o, ok := v.(*Object)
	if !ok {
		return nil
	}
	rx, ok := o.self.(*regexpObject)
	if !ok || rx.pattern == nil {
		return nil
	}
	str := s.toString()
	if start < 0 || start > str.Length() {
		return nil
	}
	res := rx.pattern.clone().findSubmatchIndex(str, start)
	return append([]int(nil), res.indexes...)
}
