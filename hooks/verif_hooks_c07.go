//go:build verif

package goja

// Accessors used by the C07 (array storage) verification harness in /verif.
// Add-only; compiled only with -tags verif.

// VerifArrayKind reports which storage strategy currently backs an Array object:
// "dense" (arrayObject), "sparse" (sparseArrayObject) or "other".
func VerifArrayKind(o *Object) string {
	if o == nil {
		return "other"
	}
	switch o.self.(type) {
	case *arrayObject:
		return "dense"
	case *sparseArrayObject:
		return "sparse"
	}
	return "other"
}

// VerifArrayCounters returns the bookkeeping counters of an Array object
// (objCount is -1 for the sparse storage which has none), the number of slots/items of the
// backing store and the length.
func VerifArrayCounters(o *Object) (objCount, propValueCount, slots int, length uint32) {
	if o == nil {
		return -1, -1, -1, 0
	}
	switch a := o.self.(type) {
	case *arrayObject:
		return a.objCount, a.propValueCount, len(a.values), a.length
	case *sparseArrayObject:
		return -1, a.propValueCount, len(a.items), a.length
	}
	return -1, -1, -1, 0
}
