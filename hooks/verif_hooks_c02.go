//go:build verif

package goja

import (
	"fmt"
	"hash/fnv"
)

// VerifC02CodeSig returns "<instruction count>:<hash of the instruction type sequence>" of a compiled
// program, recursing into nested function bodies.  Used by the C02 check for coverage only (to show that
// a rewritten program really compiled to different code); never compared for a verdict.
func VerifC02CodeSig(p *Program) string {
	h := fnv.New64a()
	n := 0
	p.dumpCode(func(format string, args ...interface{}) {
		for _, a := range args {
			if ins, ok := a.(instruction); ok {
				fmt.Fprintf(h, "%T;", ins)
				n++
			}
		}
	})
	return fmt.Sprintf("%d:%x", n, h.Sum64())
}
