//go:build verif

package goja

// Accessors used by the C01 check of /verif (bytecode dump, per-instruction stack trace,
// eval-mode compilation). This file only adds exported helpers; compiled only with -tags verif.

import (
	"fmt"
	"reflect"
	"strconv"
)

// VerifInstr is one bytecode instruction of a Program or of a nested function/class body.
type VerifInstr struct {
	Path string           // "" for the top-level code; "3" = body created by the instruction at pc 3; "3.7" nested ...
	Sub  string           // which *Program field of the creating instruction ("prg", "ctor", "initFields")
	PC   int              // index in its code array
	Name string           // Go type name of the instruction (fmt.Sprintf("%T"))
	Ops  map[string]int64 // integer/bool operands by field name ("v" for non-struct instruction types, "len(f)" for slices)
}

func verifOps(v reflect.Value, ops map[string]int64, progs map[string]*Program) {
	switch v.Kind() {
	case reflect.Ptr, reflect.Interface:
		if v.IsNil() {
			return
		}
		if v.Kind() == reflect.Ptr && v.Type() == reflect.TypeOf((*Program)(nil)) {
			return
		}
		verifOps(v.Elem(), ops, progs)
	case reflect.Int, reflect.Int8, reflect.Int16, reflect.Int32, reflect.Int64:
		ops["v"] = v.Int()
	case reflect.Uint, reflect.Uint8, reflect.Uint16, reflect.Uint32, reflect.Uint64:
		ops["v"] = int64(v.Uint())
	case reflect.Struct:
		t := v.Type()
		for i := 0; i < v.NumField(); i++ {
			f := v.Field(i)
			name := t.Field(i).Name
			switch f.Kind() {
			case reflect.Int, reflect.Int8, reflect.Int16, reflect.Int32, reflect.Int64:
				ops[name] = f.Int()
			case reflect.Uint, reflect.Uint8, reflect.Uint16, reflect.Uint32, reflect.Uint64:
				ops[name] = int64(f.Uint())
			case reflect.Bool:
				if f.Bool() {
					ops[name] = 1
				} else {
					ops[name] = 0
				}
			case reflect.Slice, reflect.Map:
				ops["len("+name+")"] = int64(f.Len())
			case reflect.Struct:
				if t.Field(i).Anonymous {
					verifOps(f, ops, progs)
				}
			case reflect.Ptr:
				if f.Type() == reflect.TypeOf((*Program)(nil)) && !f.IsNil() {
					// unexported field: read the pointer without Interface()
					progs[name] = (*Program)(f.UnsafePointer())
				}
			}
		}
	}
}

func verifInstrInfo(in instruction) (string, map[string]int64, map[string]*Program) {
	ops := map[string]int64{}
	progs := map[string]*Program{}
	if w, ok := in.(*verifTraced); ok {
		in = w.inner
	}
	if in == nil {
		return "<nil>", ops, progs
	}
	verifOps(reflect.ValueOf(in), ops, progs)
	if ym, ok := in.(*yieldMarker); ok {
		ops["resultType"] = int64(ym.resultType)
		if ym == yieldEmpty {
			ops["empty"] = 1
		}
	}
	return fmt.Sprintf("%T", in), ops, progs
}

var verifSubOrder = []string{"prg", "ctor", "initFields"}

func verifDump(p *Program, path string, sub string, out []VerifInstr) []VerifInstr {
	for pc, in := range p.code {
		name, ops, progs := verifInstrInfo(in)
		out = append(out, VerifInstr{Path: path, Sub: sub, PC: pc, Name: name, Ops: ops})
		for _, s := range verifSubOrder {
			if np := progs[s]; np != nil {
				npath := strconv.Itoa(pc)
				if path != "" {
					npath = path + "." + npath
				}
				if s != "prg" {
					npath += s[:1]
				}
				out = verifDump(np, npath, s, out)
			}
		}
	}
	return out
}

// VerifDump returns every instruction of p and, recursively, of every nested function / class body.
func VerifDump(p *Program) []VerifInstr {
	return verifDump(p, "", "", nil)
}

// VerifTraceRec is one executed instruction as seen by the tracing wrapper.
type VerifTraceRec struct {
	Seq          int // order in which the instructions STARTED (records are appended when they end)
	Path         string
	PC           int
	Name         string
	SpBefore     int
	SpAfter      int
	Sb           int
	DepthBefore  int // len(vm.callStack)
	DepthAfter   int
	TryBefore    int
	TryAfter     int
	IterBefore   int
	IterAfter    int
	RefBefore    int
	RefAfter     int
	PcAfter      int
	SamePrgAfter bool
	Panicked     bool
}

// VerifTracer collects the records produced by an instrumented program.
type VerifTracer struct {
	seq  int
	Max  int
	Recs []VerifTraceRec
	Hook func(rec *VerifTraceRec) // optional, called after every instruction (also when it panicked)
}

type verifTraced struct {
	inner instruction
	t     *VerifTracer
	path  string
	pc    int
	name  string
}

func (w *verifTraced) exec(vm *vm) {
	t := w.t
	t.seq++
	rec := VerifTraceRec{Seq: t.seq, Path: w.path, PC: w.pc, Name: w.name, SpBefore: vm.sp, Sb: vm.sb,
		DepthBefore: len(vm.callStack), TryBefore: len(vm.tryStack), IterBefore: len(vm.iterStack), RefBefore: len(vm.refStack)}
	prg := vm.prg
	done := false
	defer func() {
		if !done {
			rec.Panicked = true
		}
		rec.SpAfter, rec.DepthAfter, rec.TryAfter, rec.IterAfter, rec.RefAfter, rec.PcAfter =
			vm.sp, len(vm.callStack), len(vm.tryStack), len(vm.iterStack), len(vm.refStack), vm.pc
		rec.SamePrgAfter = vm.prg == prg
		if t.Hook != nil {
			t.Hook(&rec)
		}
		if t.Max == 0 || len(t.Recs) < t.Max {
			t.Recs = append(t.Recs, rec)
		}
	}()
	w.inner.exec(vm)
	done = true
}

func verifInstrument(p *Program, path string, t *VerifTracer, seen map[*Program]bool) {
	if seen[p] {
		return
	}
	seen[p] = true
	for pc, in := range p.code {
		if _, ok := in.(*verifTraced); ok {
			continue
		}
		name, _, progs := verifInstrInfo(in)
		for _, s := range verifSubOrder {
			if np := progs[s]; np != nil {
				npath := strconv.Itoa(pc)
				if path != "" {
					npath = path + "." + npath
				}
				if s != "prg" {
					npath += s[:1]
				}
				verifInstrument(np, npath, t, seen)
			}
		}
		p.code[pc] = &verifTraced{inner: in, t: t, path: path, pc: pc, name: name}
	}
}

// VerifTrace wraps, IN PLACE, every instruction of p and of all nested bodies by a tracing instruction
// that records (pc, kind, sp and auxiliary stack lengths before/after). The VM only ever does
// vm.prg.code[pc].exec(vm), so the wrapper is transparent. The program must not be shared.
func VerifTrace(p *Program, max int) *VerifTracer {
	t := &VerifTracer{Max: max}
	verifInstrument(p, "", t, map[*Program]bool{})
	return t
}

// VerifCompileEval compiles src the way a direct eval at the current point of execution would
// (to be called from a native function invoked by a script), or, when the VM is idle, the way a
// global (indirect) eval would. The program is not run.
func VerifCompileEval(r *Runtime, src string, strict bool) (*Program, error) {
	vm := r.vm
	inGlobal := true
	for s := vm.stash; s != nil; s = s.outer {
		if s.isVariable() {
			inGlobal = false
			break
		}
	}
	return compile("<eval>", src, strict, inGlobal, vm)
}

// VerifCodeLen returns the number of top-level instructions.
func VerifCodeLen(p *Program) int { return len(p.code) }
